#!/usr/bin/env python3
"""Regenerates /verif/MANIFEST.json from the table below and validates it against the schema."""
import json, os, subprocess, sys

ROOT = os.path.dirname(os.path.dirname(os.path.abspath(__file__)))

def repo_hook_commits():
    out = subprocess.run(["git", "-C", "/repo", "log", "--format=%H %s"], capture_output=True, text=True).stdout
    return [l.split()[0] for l in out.splitlines() if l.split(" ", 1)[1].startswith("verif:")]

COMMON_NOTE = ("Trusted base: stock revm 40 executed in order is the specification; the harness' EVM program generator, "
               "comparators and monitors; the feature-guarded hooks (observe / delay / hold only). Schedules are sampled "
               "with aimed delays and holds at hook points, not enumerated; evidence states how many executions, distinct "
               "(block, interleaving) pairs and guard-decisive events were observed.")

# id -> (claimed?, level, technique, level text, design_ref, extra note)
CHECKS = {
    "C01": ("exploration", "differential runtime monitoring: real scheduler + real threads under injected delays/holds vs independent in-order stock-revm reference (outcomes, bundle, read-back), plus trace monitors",
            "Every generated block is executed on the real scheduler under a random configuration and perturbation profile and compared, outcome by outcome and bundle field by bundle field, with an independent in-order stock-revm run; the STEP/VER/TS trace monitors check every intermediate commit. Held on the executions observed; universal quantification over blocks and schedules is sampled.",
            "DESIGN.md §4 C01"),
    "C02": ("exploration", "trace monitoring of every commit event: STEP (order, exactly-once, equality with in-order step i), VER (committed reads name committed versions), TS (no finality on a validation older than a covering rewind) under directors aimed at the claim->lock, scan->timestamp and publish->rewind windows",
            "Online event log of the real scheduler checked offline by value-independent monitors (VER/TS) and by step-wise comparison with the in-order run (STEP); directors hold threads inside the few-instruction windows the property names. Held on the traces observed.",
            "DESIGN.md §4 C02"),
    "C03": ("exploration", "differential runtime monitoring on blocks with 0-60% invalid transactions (all InvalidTransaction families, validity depending on earlier in-block transactions, nonce check on/off): outcomes incl. Skipped(reason), per-step commit/skip events and bundle vs in-order stock revm",
            "Skips are compared by exact InvalidTransaction value at every commit/skip step and in the final outcomes, state changes by bundle and canonical delta; the three deciding places (speculative execution, commit-time nonce comparison, sequential replay) are told apart in the evidence by event counts. Held on the executions observed.",
            "DESIGN.md §4 C03"),
    "C04": ("fault_enumeration", "fault injection at the database boundary: per generated block, every key touched by the in-order run or by any speculative attempt x {persistent error, fail-1st, fail-2nd access}, result judged against the in-order stock-revm run on an identically planned faulty database (error index and payload, exact outcome/state prefix, read-back)",
            "Per block the (key x mode) space over the touched-key set is enumerated (capped at 14 keys per block, stale-only keys first); blocks, configurations and schedules are sampled. Persistent faults are judged by equality with the in-order run on the same faulty database, transient ones by 'absorbed or exact prefix at a transaction that in order accesses the key'.",
            "DESIGN.md §4 C04"),
    "C05": ("exploration", "bounded-progress monitoring: coordinator parks made timeout-free (a lost wake-up or stranded transaction becomes a stable hang), stall watchdog deciding on logical conditions (no event, nobody inside a delay/DB call/execution, every scheduler thread started and each one parked in its wait slot or spinning in next() with its own loop counter advancing), HEAD trace monitor (an attempt started at the commit head is never blocked by an estimate and never fails validation: no livelock on a stale speculative version), hang and livelock cut-offs and classifying from a scheduler dump; injected database errors, latencies and panics; thread start/end balance and panic payload identity",
            "Every execution must return without the stall timers; a stable no-progress state is diagnosed and reported with its cause. Liveness is restated as bounded progress on the schedules produced, it is not a liveness proof.",
            "DESIGN.md §4 C05, §2.3"),
    "C07": ("exploration", "differential runtime monitoring with the beneficiary in every role (plain, absent, empty, sender, contract with storage, near-overflow balance), per-commit-step comparison of the beneficiary account, VER check of the beneficiary read chain",
            "Beneficiary state is compared after every commit step (canonical delta) and transactions that read the beneficiary are compared by output; the VER monitor checks that a committed beneficiary read names exactly the committed reward chain. Held on the executions observed.",
            "DESIGN.md §4 C07"),
    "C08": ("exploration", "differential runtime monitoring on destroy / re-create / storage-reset workloads across Frontier..Osaka with readers before, between and after; read-back of the returned state",
            "Outcomes, per-step deltas, bundle statuses/reverts and read-back are compared with in-order stock revm for generated lifecycles on hot addresses in all rule sets. Held on the executions observed.",
            "DESIGN.md §4 C08"),
    "C09": ("exploration", "differential runtime monitoring on EIP-7702 authorisation sequences (set, re-point, clear, repeated/invalid authorisations, pre-delegated accounts) and in-block deployments interleaved with calls and EXTCODE* probes",
            "Outcomes, per-step deltas and bundle are compared with in-order stock revm on Prague/Osaka authorisation workloads and on deployment workloads for all forks, under directors that hold readers between the Basic and Code publications. Held on the executions observed.",
            "DESIGN.md §4 C09"),
    "C06": ("exploration", "relational runtime monitoring: per block an orbit of configurations (workers 1..16, min_parallel_txs 0/n/n+1, force_sequential, execute / parallel_execute / fallback_sequential, perturbation profiles) for each of the four policy combinations; all runs of an orbit must agree on result, failing index, outcomes, bundle and read-back; with the policy inert additionally anchored to stock revm",
            "Determinism is checked as pairwise equality across an orbit of runs of the same block (8 configurations per orbit); with the delegated-account policies enabled stock revm is not a reference, so agreement between the parallel path, the sequential path and the replay path is the oracle. Held on the orbits observed.",
            "DESIGN.md §4 C06"),
    "C10": ("exploration", "history + executable model (revm State): (a) the same stock EVM over State and over ParallelState interleaved with increments, drains, merges, revert detachments (pre-populated bundle without reverts) and bundle extractions over 1-4 blocks, comparing transitions, bundles and Database-interface reads after every operation; (b) reader threads filling the cache through the production view while the production commit handle applies real journal output (held at the fetch->insert window); (c) two consecutive blocks through the scheduler on one ParallelState",
            "ParallelState is driven by the same histories as revm's State and compared after every step; the concurrent part uses the production split view/commit handles under delays in the fetch->insert and status->clear windows. Held on the histories observed.",
            "DESIGN.md §4 C10"),
    "C11": ("exploration", "differential runtime monitoring with test precompiles built on the public facade (reads + data-dependent writes, read-only, static mutator that ignores facade errors, state-dependent fatal) installed both in grevm and, through the same adapters, in the in-order stock-revm reference; a second reference whose four precompiles are written by hand against Alloy's raw journal interface (no grevm facade/adapter: static refusal, sticky fault and halt mapping judged independently); in-attempt read consistency counters inside the precompiles",
            "Outcomes, per-step deltas and bundle of blocks that call the test precompiles (directly, nested, via STATICCALL, in reverting frames) are compared with the in-order run using the same adapters; counters inside the precompiles check repeated reads and read-your-writes within an attempt. Held on the executions observed.",
            "DESIGN.md §4 C11"),
    "C12": ("exploration", "differential runtime monitoring against two stock-revm oracles: an inspector that only watches create opcodes (no delegated-context create => guard-on must be bit-identical to stock) and an inspector that enforces the rule on stock revm at the opcode (halts the frame as not-activated); all forks, guard on/off",
            "The guard is compared with an independent ten-line statement of the rule executed on stock revm (inspector halting CREATE/CREATE2 in a delegated context) and with unmodified stock revm when no such create occurs. Held on the executions observed.",
            "DESIGN.md §4 C12"),
    "C13": ("exploration", "runtime monitoring of policy invariants: (i) agreement of parallel/sequential/replay paths (C06 orbit), (ii) end-to-end invariant 'a sender whose block-start balance covers all its transactions is never skipped for lack of funds', (iii) an independent re-statement of the rule on stock revm (inspector recording surviving value-moving operations and the payer's balance before each) judged transaction by transaction up to the first violation, (iv) the violated transaction itself compared (result, gas, refund, nonce, fee, authorisation effects, reward) with a twin run on stock revm whose root frame is turned into a REVERT at its very end",
            "Stock revm is not a full reference once the policy fires, so the oracle is layered: invariants over whole blocks plus a step-wise comparison that is exact up to and including the first transaction the rule turns into a charged revert. Held on the executions observed.",
            "DESIGN.md §4 C13"),
    "C14": ("exploration", "client-boundary history checking: 2-6 threads call execute / parallel_execute / fallback_sequential on one scheduler (some behind a barrier, some after the first return); exactly one call may run the block, the once-only gate may be passed once, final outcomes/bundle must equal the in-order run, a never-executed scheduler must return nothing",
            "Histories of entry-point calls are recorded at the client boundary and checked for exactly-one-winner and for equality of the final result with a single in-order execution. Held on the histories observed.",
            "DESIGN.md §4 C14"),
    "C15": ("exploration", "history checking of the production cursors through the verif facade: linearizability of claim/rewind against a 10-line sequential cursor, re-offer of every rewound index, limit respect, frontier never passing an unpublished index and catching up at quiescence; plus the TS trace monitor on whole-scheduler runs (Miri lane adds weak-memory executions)",
            "The production functions (not copies) are driven by 2-4 claimers, 1-2 rewinders, 1-3 publishers and a frontier reader; histories are small (<=40 operations) and checked exactly. Interleavings are sampled; weak-memory reorderings only in the Miri lane.",
            "DESIGN.md §4 C15"),
    "C16": ("exploration", "bounded-progress and exactly-once monitoring of the production dependency graph driven by a protocol-faithful mini scheduler (per-tx status under a lock, scripted conflicts/errors/validation failures, commit thread), plus whole-scheduler stall detection on dependency-heavy blocks",
            "Every scripted run must commit all transactions without a stable no-progress state, and no transaction may be handed out twice without being re-armed. Held on the schedules observed.",
            "DESIGN.md §4 C16"),
    "C17": ("exploration", "lost-wake-up detection on the production wait slot with timeout-free parks (a lost notification is a stable hang), notifications issued before registration, between check and park, and while parked; plus whole-scheduler stall detection with directors holding producers around publish/notify",
            "A waiter must return once all publications have been notified; whole-scheduler runs check the producer-side discipline (publish before notify). Held on the schedules observed.",
            "DESIGN.md §4 C17"),
}

NOT_YET = {
}

def main():
    checks = []
    for pid, (level, technique, text, ref) in sorted(CHECKS.items()):
        checks.append({
            "property_id": pid,
            "quick_cmd": f"./check {pid} quick",
            "thorough_cmd": f"./check {pid} thorough",
            "evidence_file": f"/verif/evidence/{pid}.json",
            "replay_cmd_template": "./check replay {path}",
            "engine": "vharness",
            "level_claimed": {"category": level, "text": text, "design_ref": ref},
            "level_note": COMMON_NOTE,
            "technique": technique,
        })
    props = [json.loads(l)["id"] for l in open(os.path.join(ROOT, "properties.jsonl"))]
    not_applicable = []
    for pid in props:
        if pid not in CHECKS:
            not_applicable.append({"property_id": pid, "reason": NOT_YET.get(pid, "check not built yet in this session; the design in DESIGN.md §4 applies and the property is expected to be claimed once its monitor exists")})
    manifest = {
        "version": 1,
        "setup_cmd": "cd /verif && ./check build",
        "hooks": {
            "guard": "cargo feature `verif` of crate grevm (off by default)",
            "enable": "the harness crate /verif/harness depends on grevm = { path = \"/repo\", features = [\"verif\", \"test-utils\"] }; every check runs `cargo build --offline` there first, so it always rebuilds /repo's working tree",
            "baseline_off_cmd": "cd /repo && cargo test --workspace --no-fail-fast --offline",
            "source_commits": repo_hook_commits(),
            "add_only": True,
        },
        "engines": [
            {"name": "vharness", "path": "/verif/harness", "serves_properties": sorted(CHECKS.keys()),
             "kind_free_text": "Rust harness: seeded EVM workload generator, stock-revm reference, fault/latency/panic-injecting database, observer implementing grevm's verif::Hooks (event log + perturbation engine with profiles and directors), offline trace monitors, stall watchdog; runs as 16 shard processes"},
        ],
        "checks": checks,
        "not_applicable": not_applicable,
        "notes": "Technique family: runtime monitoring and sanitizers. Every check honours VERIF_SEED; VERIF_BUDGET_S / VERIF_SHARDS override the per-shard time budget and the shard count. A violation is reported as `VIOLATION property=<id> replay=<path>`; findings listed as `known` in /verif/known_findings.json print `KNOWN-FINDING:` instead. INCONCLUSIVE lines (watchdog without a stable state, harness errors) are never folded into either verdict.",
    }
    path = os.path.join(ROOT, "MANIFEST.json")
    json.dump(manifest, open(path, "w"), indent=1)
    try:
        import jsonschema
        jsonschema.validate(manifest, json.load(open("/root/.vp/MANIFEST.schema.json")))
        print("MANIFEST.json valid;", len(checks), "checks,", len(not_applicable), "not_applicable")
    except ImportError:
        print("jsonschema not importable; wrote MANIFEST.json unvalidated")

if __name__ == "__main__":
    main()
