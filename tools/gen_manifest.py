#!/usr/bin/env python3
"""Regenerates /verif/MANIFEST.json from the table below and validates it against the schema."""
import json, os, subprocess, sys

ROOT = os.path.dirname(os.path.dirname(os.path.abspath(__file__)))

def repo_hook_commits():
    out = subprocess.run(["git", "-C", "/repo", "log", "--format=%H %s"], capture_output=True, text=True).stdout
    return [l.split()[0] for l in out.splitlines() if l.split(" ", 1)[1].startswith("verif:")]

COMMON_NOTE = ("Trusted base: stock revm 40 executed in order is the specification; the harness' EVM program generator, "
               "comparators and monitors; the feature-guarded hooks (observe / delay / hold only). Schedules are sampled "
               "with aimed delays and holds at hook points, not enumerated; evidence states how many executions, distinct "
               "(block, interleaving) pairs and guard-decisive events were observed.")

# id -> (claimed?, level, technique, level text, design_ref, extra note)
CHECKS = {
    "C01": ("exploration", "differential runtime monitoring: real scheduler + real threads under injected delays/holds vs independent in-order stock-revm reference (outcomes, bundle, read-back), plus trace monitors",
            "Every generated block is executed on the real scheduler under a random configuration and perturbation profile and compared, outcome by outcome and bundle field by bundle field, with an independent in-order stock-revm run; the STEP/VER/TS trace monitors check every intermediate commit. Held on the executions observed; universal quantification over blocks and schedules is sampled.",
            "DESIGN.md §4 C01"),
    "C02": ("exploration", "trace monitoring of every commit event: STEP (order, exactly-once, equality with in-order step i), VER (committed reads name committed versions), TS (no finality on a validation older than a covering rewind) under directors aimed at the claim->lock, scan->timestamp and publish->rewind windows",
            "Online event log of the real scheduler checked offline by value-independent monitors (VER/TS) and by step-wise comparison with the in-order run (STEP); directors hold threads inside the few-instruction windows the property names. Held on the traces observed.",
            "DESIGN.md §4 C02"),
}

NOT_YET = {
}

def main():
    checks = []
    for pid, (level, technique, text, ref) in sorted(CHECKS.items()):
        checks.append({
            "property_id": pid,
            "quick_cmd": f"./check {pid} quick",
            "thorough_cmd": f"./check {pid} thorough",
            "evidence_file": f"/verif/evidence/{pid}.json",
            "replay_cmd_template": "./check replay {path}",
            "engine": "vharness",
            "level_claimed": {"category": level, "text": text, "design_ref": ref},
            "level_note": COMMON_NOTE,
            "technique": technique,
        })
    props = [json.loads(l)["id"] for l in open(os.path.join(ROOT, "properties.jsonl"))]
    not_applicable = []
    for pid in props:
        if pid not in CHECKS:
            not_applicable.append({"property_id": pid, "reason": NOT_YET.get(pid, "check not built yet in this session; the design in DESIGN.md §4 applies and the property is expected to be claimed once its monitor exists")})
    manifest = {
        "version": 1,
        "setup_cmd": "cd /verif && ./check build",
        "hooks": {
            "guard": "cargo feature `verif` of crate grevm (off by default)",
            "enable": "the harness crate /verif/harness depends on grevm = { path = \"/repo\", features = [\"verif\", \"test-utils\"] }; every check runs `cargo build --offline` there first, so it always rebuilds /repo's working tree",
            "baseline_off_cmd": "cd /repo && cargo test --workspace --no-fail-fast --offline",
            "source_commits": repo_hook_commits(),
            "add_only": True,
        },
        "engines": [
            {"name": "vharness", "path": "/verif/harness", "serves_properties": sorted(CHECKS.keys()),
             "kind_free_text": "Rust harness: seeded EVM workload generator, stock-revm reference, fault/latency/panic-injecting database, observer implementing grevm's verif::Hooks (event log + perturbation engine with profiles and directors), offline trace monitors, stall watchdog; runs as 16 shard processes"},
        ],
        "checks": checks,
        "not_applicable": not_applicable,
        "notes": "Technique family: runtime monitoring and sanitizers. Every check honours VERIF_SEED; VERIF_BUDGET_S / VERIF_SHARDS override the per-shard time budget and the shard count. A violation is reported as `VIOLATION property=<id> replay=<path>`; findings listed as `known` in /verif/known_findings.json print `KNOWN-FINDING:` instead. INCONCLUSIVE lines (watchdog without a stable state, harness errors) are never folded into either verdict.",
    }
    path = os.path.join(ROOT, "MANIFEST.json")
    json.dump(manifest, open(path, "w"), indent=1)
    try:
        import jsonschema
        jsonschema.validate(manifest, json.load(open("/root/.vp/MANIFEST.schema.json")))
        print("MANIFEST.json valid;", len(checks), "checks,", len(not_applicable), "not_applicable")
    except ImportError:
        print("jsonschema not importable; wrote MANIFEST.json unvalidated")

if __name__ == "__main__":
    main()
