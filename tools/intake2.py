#!/usr/bin/env python3
"""tools/intake2.py <worktree> <seed-id> <property> <what> <needs> <detected_by> <ran>  -- copy a sub-agent's SEEDED dir to /verif/seeded/<id>/ with meta.json"""
import sys, os, shutil, json, subprocess
wt, sid, prop, what, needs, det, ran = sys.argv[1:8]
src = os.path.join(wt, "SEEDED"); dst = f"/verif/seeded/{sid}"
os.makedirs(dst, exist_ok=True)
for f in os.listdir(src):
    p = os.path.join(src, f)
    if os.path.isdir(p):
        continue
    if f.startswith("evidence_") or f.endswith(".log") or os.path.getsize(p) > 60000:
        open(os.path.join(dst, f), "w").write(open(p, errors="replace").read()[-3000:])
    else:
        shutil.copy(p, os.path.join(dst, f))
ok = subprocess.run(["git", "-C", "/repo", "apply", "--check", os.path.join(dst, "patch.diff")]).returncode == 0
json.dump({"id": sid, "property": prop, "origin": f"sub-agent ({os.path.basename(wt)}), given only the property text and a scratch worktree",
           "what": what, "needs": needs, "baseline_tests": "95/95 (+1 doc-test) with the change, per the agent's evidence_a and re-checked when noted",
           "detected_by": det, "ran": ran, "patch_applies_to_repo_head": ok}, open(os.path.join(dst, "meta.json"), "w"), indent=1)
print(sid, "applies" if ok else "DOES NOT APPLY")
