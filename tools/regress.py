#!/usr/bin/env python3
"""tools/regress.py <lab> [budget_s] [ids...]  -- re-run every kept seeded change (seeded/m*/) and every own mutant that was
detected before (seeded/own_matrix.json) against the current harness, inside an isolated lab (tools/lab.sh). Prints a kill
table and writes seeded/regress.json. A mutant that used to be caught and no longer is = a regression of the machinery."""
import json, os, subprocess, sys, glob, time
lab = sys.argv[1]; budget = sys.argv[2] if len(sys.argv) > 2 else "20"; only = set(sys.argv[3:])
R, V = f"/tmp/lab/{lab}/repo", f"/tmp/lab/{lab}/verif"
subprocess.check_call(["/verif/tools/lab.sh", "sync", lab])
items = []
for d in sorted(glob.glob("/verif/seeded/m*/")):
    m = json.load(open(d + "meta.json")); items.append((m["id"] if "id" in m else os.path.basename(d[:-1]), m["property"], d + "patch.diff"))
own = json.load(open("/verif/seeded/own_matrix.json"))
for k, v in sorted(own.items()):
    if v.get("detected"): items.append((k, v["property"], f"/verif/seeded/own/{k}/patch.diff"))
out_path = "/verif/seeded/regress.json"
res = json.load(open(out_path)) if os.path.exists(out_path) else {}
for mid, prop, patch in items:
    if only and mid not in only: continue
    if subprocess.run(["git", "-C", R, "status", "--short", "-uno"], capture_output=True, text=True).stdout.strip():
        print("lab repo not clean"); sys.exit(2)
    if subprocess.run(["git", "-C", R, "apply", patch]).returncode != 0:
        res[mid] = {"property": prop, "status": "patch does not apply"}; print(mid, "PATCH DOES NOT APPLY"); continue
    env = dict(os.environ, VERIF_BUDGET_S=budget)
    if "f9-revert" in mid:
        # caught only by the thorough tier's interpreted whole-scheduler blocks (about once in 40 blocks)
        res[mid] = {"property": prop, "status": "thorough-tier Miri lane only; not re-run here"}
        subprocess.run(["git", "-C", R, "checkout", "--", "."])
        print(f"{mid:52s} {prop} (thorough-tier Miri lane only, skipped)", flush=True)
        continue
    miri_only = "f8-revert" in mid or "key-tx-cursor-read-before-lock" in mid
    env["VERIF_MIRI"] = "1" if miri_only else os.environ.get("VERIF_MIRI", "0")
    t0 = time.time()
    r = subprocess.run(["./check", prop, "quick"], cwd=V, capture_output=True, text=True, env=env)
    o = r.stdout + r.stderr
    viol = [l for l in o.splitlines() if l.startswith("VIOLATION")]
    inc = [l for l in o.splitlines() if l.startswith("INCONCLUSIVE")]
    res[mid] = {"property": prop, "detected": bool(viol), "first": viol[0][:240] if viol else "", "inconclusive_lines": len(inc), "secs": round(time.time() - t0)}
    subprocess.run(["git", "-C", R, "checkout", "--", "."])
    json.dump(res, open(out_path, "w"), indent=1)
    print(f"{mid:52s} {prop} detected={bool(viol)} inc={len(inc)} {res[mid]['first'][60:200]}", flush=True)
