#!/usr/bin/env python3
"""Own mutation matrix: applies each textual mutant to /repo, checks that it compiles and that the
95-test baseline still passes, runs the quick check of the property it targets, reverts.
Usage: tools/own_mutants.py [budget_s] [only-id ...]   -> table on stdout, JSON in /verif/seeded/own_matrix.json"""
import json, os, re, subprocess, sys, time

LAB = os.environ.get("LAB")  # name of a lab created by tools/lab.sh (isolated copy); default: /repo and /verif in place
R = f"/tmp/lab/{LAB}/repo" if LAB else "/repo"
V = f"/tmp/lab/{LAB}/verif" if LAB else "/verif"
MUTS = [
 # id, property, file, old, new, note
 ("o01-mv-read-inclusive", "C01", "src/incarnation_db.rs",
  "                    written_transactions.range(..self.version.txid).next_back() &&\n                let MemoryValue::Basic(account) = &entry.data",
  "                    written_transactions.range(..=self.version.txid).next_back() &&\n                let MemoryValue::Basic(account) = &entry.data",
  "account reads may resolve to the transaction's own previous incarnation"),
 ("o02-estimate-ignored-in-validation", "C02", "src/scheduler.rs",
  "                    if latest_version.estimate {\n                        conflict = true;\n                    } else if let ReadVersion::MvMemory(version) = version {",
  "                    if let ReadVersion::MvMemory(version) = version {",
  "validation accepts reads of estimate versions"),
 ("o03-validation-txid-only", "C02", "src/scheduler.rs",
  "                        if version.txid != previous_id ||\n                            version.incarnation != latest_version.incarnation\n                        {",
  "                        if version.txid != previous_id {",
  "validation compares the writer only, not its incarnation"),
 ("o04-storage-origin-not-invalidated", "C01", "src/scheduler.rs",
  "                    } else {\n                        conflict = true;\n                    }\n                } else if !matches!(version, ReadVersion::Storage) {",
  "                    }\n                } else if !matches!(version, ReadVersion::Storage) {",
  "a base-state read is not invalidated by a new preceding MV write"),
 ("o05-no-rewind-on-new-write", "C02", "src/scheduler.rs",
  "            if write_new_locations {\n                self.scheduler_ctx.rewind_validation_to(txid);\n            } else {",
  "            if false {\n                self.scheduler_ctx.rewind_validation_to(txid);\n            } else {",
  "no validation rewind when a re-execution writes a new location"),
 ("o06-lower-ts-not-carried", "C15", "src/scheduler.rs",
  "        let effective_lower_ts = max(lower_ts, self.scheduler_ctx.lower_timestamp(finality_idx));",
  "        let effective_lower_ts = max(0, self.scheduler_ctx.lower_timestamp(finality_idx));\n        let _ = lower_ts;",
  "rewind timestamp not carried along the finality prefix"),
 ("o07-finality-cursor-guard-removed", "C15", "src/scheduler.rs",
  "        if finality_idx >= self.block_size || finality_idx >= self.scheduler_ctx.validation_idx() {",
  "        if finality_idx >= self.block_size {",
  "finality may pass the validation cursor"),
 ("o08-commit-nonce-less-commits", "C03", "src/scheduler/ordered_commit.rs",
  "                        Ordering::Less => {\n                            // See the nonce-too-high branch above: fallback owns the final outcome.\n                            return Ok(CommitOutcome::NeedsSequentialFallback);\n                        }",
  "                        Ordering::Less => {}",
  "a too-low nonce is committed instead of falling back"),
 ("o09-reward-newest-first", "C07", "src/beneficiary/history.rs",
  "            .into_iter()\n            .rev()\n            .fold(self.base, |account, reward| Some(reward.apply_to(account)));",
  "            .into_iter()\n            .fold(self.base, |account, reward| Some(reward.apply_to(account)));",
  "rewards folded newest first (differs only when one addition overflows)"),
 ("o10-beneficiary-validate-newest-only", "C07", "src/beneficiary/history.rs",
  "        BeneficiaryValidation { valid: self.version == *expected, dependency }",
  "        BeneficiaryValidation { valid: self.version.origins.first() == expected.origins.first(), dependency }",
  "beneficiary validation compares only the newest origin"),
 ("o11-reset-ge-to-gt", "C08", "src/incarnation_db.rs",
  "            reset_txid.is_none_or(|reset_txid| slot_txid >= reset_txid)",
  "            reset_txid.is_none_or(|reset_txid| slot_txid > reset_txid)",
  "storage written by the creating transaction itself is masked by its own reset marker"),
 ("o12-no-reset-on-create", "C08", "src/incarnation_db.rs",
  "            if created {\n                self.publish_storage_reset(*address, estimate, &mut write_set);\n            }",
  "            if false && created {\n                self.publish_storage_reset(*address, estimate, &mut write_set);\n            }",
  "creation does not publish a storage reset marker"),
 ("o13-code-changed-only-from-empty", "C09", "src/incarnation_db.rs",
  "                account_snapshot.is_none_or(|basic| basic.code_hash != Some(info.code_hash));",
  "                account_snapshot.is_none_or(|basic| basic.code_hash.is_none());",
  "code republished only when the account had no code (the block-22546209 bug)"),
 ("o14-touch-empty-status", "C10", "src/parallel_state.rs",
  "            AccountStatus::LoadedNotExisting |\n                AccountStatus::Destroyed |\n                AccountStatus::DestroyedAgain",
  "            AccountStatus::LoadedNotExisting | AccountStatus::DestroyedAgain",
  "touch_empty_eip161 emits a transition for an already destroyed account"),
 ("o15-bundle-reverts-size", "C10", "src/bundle.rs",
  "                self.reverts_size += account.revert_size;\n", "",
  "parallel bundle builder forgets reverts_size"),
 ("o16-required-after-inclusive", "C13", "src/delegated_safety/reserve.rs",
  "        match self.txids.partition_point(|candidate| *candidate <= txid) {",
  "        match self.txids.partition_point(|candidate| *candidate < txid) {",
  "the current transaction's own cost is included in the reserve"),
 ("o17-required-is-future-only", "C13", "src/delegated_safety/handler.rs",
  "            let required = candidate.balance_before.min(future_cost);",
  "            let required = future_cost;",
  "reserve demands the full future cost even if the account never had it"),
 ("o18-run-once-load-store", "C14", "src/scheduler/control.rs",
  "        self.started.compare_exchange(false, true, Ordering::Relaxed, Ordering::Relaxed).map_err(",
  "        (if self.started.load(Ordering::Relaxed) {\n            Err(true)\n        } else {\n            std::thread::yield_now();\n            self.started.store(true, Ordering::Relaxed);\n            Ok(false)\n        })\n        .map_err(",
  "once-only gate as load + store instead of CAS"),
 ("o19-rewind-load-store", "C15", "src/scheduler/cursor.rs",
  "        self.0.fetch_min(value, Ordering::AcqRel)",
  "        let current = self.0.load(Ordering::Acquire);\n        self.0.store(current.min(value), Ordering::Release);\n        current",
  "cursor rewind as load + store (loses concurrent claims / rewinds)"),
 ("o20-frontier-publish-no-reload", "C15", "src/scheduler/context.rs",
  "        // and the store; using the stale value would leave the newly filled gap unadvanced.\n        let frontier = self.frontier.load(Ordering::Acquire);\n",
  "        // and the store; using the stale value would leave the newly filled gap unadvanced.\n",
  "frontier publisher decides on the value loaded before its own store"),
 ("o21-remove-no-blocker-recheck", "C16", "src/tx_dependency.rs",
  "            if dependent.dependency == Some(txid) {\n                dependent.dependency = None;",
  "            if dependent.dependency.is_some() {\n                dependent.dependency = None;",
  "a stale reverse edge releases a transaction that waits for someone else"),
 ("o22-add-no-reoffer-of-blocker", "C16", "src/tx_dependency.rs",
  "            if dep_state.dependency.is_none() {\n                self.index.fetch_min(dep_id, Ordering::Relaxed);\n            }",
  "",
  "a blocker that already finished is not re-offered, nobody releases the dependent"),
 ("o23-cancel-no-finality-notify", "C17", "src/scheduler/control.rs",
  "        self.finality_wait.notify();\n        self.commit_wait.notify();",
  "        self.commit_wait.notify();",
  "cancel() does not wake the finality thread"),
 ("o24-sticky-fault-not-enforced", "C11", "src/precompile.rs",
  "            let result = input.state.take_fault().map_or(result, Err);",
  "            let _ = input.state.take_fault();",
  "a facade fault ignored by the implementation is not enforced by the adapter"),
 ("o25-worker-no-cancel-on-panic", "C05", "src/scheduler.rs",
  "                    workers.push(scope.spawn(|| {\n                        let _cancel = self.cancel_on_panic();",
  "                    workers.push(scope.spawn(|| {",
  "a panicking worker does not release its peers"),
 ("o26-ts-after-scan", "C02", "src/scheduler.rs",
  None, None, "validation timestamp captured after the read-set scan"),
 ("o27-fallback-no-precompiles", "C11", "src/scheduler/fallback.rs",
  "                self.custom_precompiles.as_ref(),\n                self.config.delegated_safety.forbid_delegated_create,",
  "                &[],\n                self.config.delegated_safety.forbid_delegated_create,",
  "sequential path does not register the custom precompiles"),
 ("o28-seq-planner-none", "C06", "src/scheduler/fallback.rs",
  "                let reserve_mode = ReserveMode::from_planner(txid, self.reserve_planner.as_deref());",
  "                let reserve_mode = ReserveMode::from_planner(txid - start, self.reserve_planner.as_deref());",
  "reserve planner keyed by replay-relative index on the sequential path"),
 # ---- second batch -------------------------------------------------------------------------
 ("o29-stale-mv-write-kept", "C01", "src/scheduler.rs",
  "                        if !write_set.contains(location) &&\n                            let Some(mut written_transactions) = self.mv_memory.get_mut(location)\n                        {\n                            written_transactions.remove(&txid);\n                        }",
  "                        let _ = location;",
  "a location written by the previous incarnation but not by the new one keeps its stale version"),
 ("o30-validation-claim-skips-unconfirmed", "C15", "src/scheduler.rs",
  "                    TransactionStatus::Executed | TransactionStatus::Unconfirmed => {\n                        tx.status = TransactionStatus::Validating;",
  "                    TransactionStatus::Executed => {\n                        tx.status = TransactionStatus::Validating;",
  "a rewound Unconfirmed transaction is not validated again"),
 ("o31-validate-conflict-no-rewind", "C02", "src/scheduler.rs",
  "        tx_state.status = if conflict {\n            self.scheduler_ctx.rewind_validation_to(txid + 1);\n            TransactionStatus::Conflict",
  "        tx_state.status = if conflict {\n            TransactionStatus::Conflict",
  "a failed validation does not rewind the validation of later transactions"),
 ("o32-exec-conflict-no-rewind", "C02", "src/scheduler.rs",
  "        if conflict {\n            self.scheduler_ctx.rewind_validation_to(txid + 1);\n        } else {",
  "        if conflict {\n        } else {",
  "an execution that ends blocked / in error does not rewind the validation of later transactions"),
 ("o33-release-before-publish", "C16", "src/scheduler.rs",
  "                        self.scheduler_ctx.publish_commit(next_commit_idx);\n",
  "                        self.tx_dependency.commit(commit_idx);\n                        self.scheduler_ctx.publish_commit(next_commit_idx);\n",
  "the commit loop releases the successor before (and after) publishing the committed boundary"),
 ("o34-key-tx-barrier-at-boundary", "C16", "src/tx_dependency.rs",
  "        if txid > commit_idx.get() {\n            state.dependency = Some(txid);",
  "        if txid >= commit_idx.get() {\n            state.dependency = Some(txid);",
  "a transaction that errs exactly at the commit boundary parks behind a barrier nobody lifts"),
 ("o35-delete-no-storage-reset", "C08", "src/incarnation_db.rs",
  "                    self.publish_storage_reset(*address, estimate, &mut write_set);\n                    continue",
  "                    continue",
  "a self-destruct publishes no storage reset marker"),
 ("o36-reset-read-not-recorded", "C08", "src/incarnation_db.rs",
  "        self.read_set.insert(reset_location, reset_version);\n",
  "        if reset_txid.is_some() {\n            self.read_set.insert(reset_location, reset_version);\n        }\n",
  "a storage read that saw no reset marker does not record the marker location in its read set"),
 ("o37-handoff-no-validation-rewind", "C15", "src/scheduler.rs",
  "        if let Some(next) = next {\n            self.scheduler_ctx.rewind_validation_to(txid);\n            drop(tx_state);",
  "        if let Some(next) = next {\n            drop(tx_state);",
  "a worker that takes the successor by direct hand-off does not offer its own transaction for validation"),
 ("o38-err-no-estimate-marking", "C02", "src/scheduler.rs",
  "                    write_set = std::mem::take(&mut last_result.write_set);\n                    self.mark_mv_estimate(txid, &write_set);",
  "                    write_set = std::mem::take(&mut last_result.write_set);",
  "an attempt that ends in an EVM error leaves its previous incarnation's writes unmarked"),
 ("o39-validate-no-estimate-marking", "C02", "src/scheduler.rs",
  "            self.mark_mv_estimate(txid, &result.write_set);\n",
  "",
  "a failed validation does not mark the transaction's writes as estimates"),
 ("o40-code-read-unversioned", "C09", "src/incarnation_db.rs",
  "            read_version = ReadVersion::MvMemory(TxVersion::new(txid, entry.incarnation));\n        }\n        // 2. read from database\n        if result.is_none() {",
  "            read_version = ReadVersion::MvMemory(TxVersion::new(txid, 1));\n        }\n        // 2. read from database\n        if result.is_none() {",
  "a code read records incarnation 1 of its writer instead of the incarnation it saw"),
 ("o41-basic-publish-skips-code-only-change", "C09", "src/incarnation_db.rs",
  "                (code_changed ||\n                    account_snapshot.is_none_or(|basic| {",
  "                (account_snapshot.is_none_or(|basic| {",
  "the Basic version is not republished when only the code changed"),
 ("o42-finality-notify-off-by-one", "C17", "src/scheduler.rs",
  "        if txid == self.scheduler_ctx.finality_idx() {\n            self.finality_wait.notify();",
  "        if txid + 1 == self.scheduler_ctx.finality_idx() {\n            self.finality_wait.notify();",
  "validate() notifies the finality thread for the wrong index"),
 ("o43-commit-wait-predicate", "C17", "src/scheduler.rs",
  "                    !self.is_aborted() && commit_idx >= self.scheduler_ctx.finality_idx()\n",
  "                    commit_idx >= self.scheduler_ctx.finality_idx()\n",
  "the commit thread's wait predicate ignores the abort flag"),
 ("o44-nonce-overflow-commits", "C03", "src/scheduler/ordered_commit.rs",
  "                    if tx_env.nonce == u64::MAX && expect == u64::MAX {\n                        // Leave the speculative result uncommitted and let sequential execution\n                        // classify the nonce overflow as an invalid transaction skip.\n                        return Ok(CommitOutcome::NeedsSequentialFallback);\n                    }\n",
  "",
  "a transaction with nonce u64::MAX matching the state nonce is committed instead of skipped"),
 ("o45-deferred-reward-dropped-when-absent", "C07", "src/scheduler/ordered_commit.rs",
  "            let mut account = Account::from(reward.apply_to(info));\n            account.mark_touch();\n            let _ = state.insert(self.beneficiary, account);",
  "            if info.is_some() {\n                let mut account = Account::from(reward.apply_to(info));\n                account.mark_touch();\n                let _ = state.insert(self.beneficiary, account);\n            }",
  "a deferred reward is not credited to a beneficiary that does not exist yet"),
 ("o46-frontier-publish-skip-lt", "C15", "src/scheduler/context.rs",
  "        if index < frontier {\n            return;\n        }\n",
  "        if index <= frontier {\n            return;\n        }\n",
  "the frontier publisher skips the index that equals the current frontier"),
 ("o47-storage-known-ignores-none", "C10", "src/parallel_state.rs",
  "        let is_storage_known =\n            self.cache.accounts.get(&address).is_some_and(|account| {\n                account.status.is_storage_known() || account.account.is_none()\n            });",
  "        let is_storage_known =\n            self.cache.accounts.get(&address).is_some_and(|account| account.status.is_storage_known());",
  "storage of a cached non-existing account is fetched from the database"),
 ("o48-created-keeps-cached-storage", "C10", "src/parallel_state.rs",
  "                    self.get_account_mut(address).newly_created(info.clone(), changed_storage);\n                self.storage.remove(&address);",
  "                    self.get_account_mut(address).newly_created(info.clone(), changed_storage);",
  "creating an account does not clear its cached storage"),
 # ---- third batch ----------------------------------------------------------------------------
 ("o49-seq-finalize-only-on-ok", "C03", "src/scheduler/fallback.rs",
  "                let state = evm.finalize();\n                output.map(|output| {\n                    let result = output.into_immediate_result();",
  "                output.map(|output| {\n                    let state = evm.finalize();\n                    let result = output.into_immediate_result();",
  "the sequential path finalizes the journal only after a successful transaction"),
 ("o50-set-balance-allowed-in-static", "C11", "src/precompile.rs",
  "    ) -> Result<StateLoad<()>, ParallelPrecompileError> {\n        self.ensure_mutable()?;",
  "    ) -> Result<StateLoad<()>, ParallelPrecompileError> {\n        self.ensure_healthy()?;",
  "set_balance through the facade is not refused in a static context"),
 ("o51-precompile-result-cached", "C11", "src/precompile.rs",
  "        DynPrecompile::new_stateful(id, move |input| {",
  "        DynPrecompile::new(id, move |input| {",
  "the adapter no longer disables the input-keyed result cache"),
 ("o52-reserve-create-nonce-not-restored", "C13", "src/delegated_safety/handler.rs",
  "            if recreate_sender_nonce {\n                reapply_create_sender_nonce::<EVM, ERROR>(evm)?;\n            }\n",
  "            let _ = recreate_sender_nonce;\n",
  "a reserve violation in a top-level CREATE transaction loses the sender's nonce bump"),
 ("o53-reserve-auth-refund-dropped", "C13", "src/delegated_safety/handler.rs",
  "            // apply it again using this synthetic top-level REVERT result.\n            self.refund(evm, exec_result, eip7702_gas_refund);\n",
  "            // apply it again using this synthetic top-level REVERT result.\n",
  "a reserve violation drops the EIP-7702 authorisation refund"),
 ("o54-reserve-boundary-inclusive", "C13", "src/delegated_safety/handler.rs",
  "            if candidate.final_balance < required {",
  "            if candidate.final_balance <= required {",
  "leaving exactly the reserve counts as a violation"),
 ("o55-guard-tests-caller", "C12", "src/delegated_safety/instructions.rs",
  "    let recipient = context.interpreter.input.target_address();",
  "    let recipient = context.interpreter.input.caller_address();",
  "the delegated-create guard looks at the frame's caller instead of its target"),
 ("o56-reserve-index-first-only", "C13", "src/delegated_safety/reserve.rs",
  "                index.entry(tx.caller).or_insert_with(Vec::new).push(txid);",
  "                let list = index.entry(tx.caller).or_insert_with(Vec::new);\n                if list.len() < 2 {\n                    list.push(txid);\n                }",
  "only the first two transactions of a sender enter the reserve index"),
 ("o57-zero-reward-deferred-skip", "C07", "src/beneficiary/reward.rs",
  "        if reward.is_zero() || evm.ctx_ref().journal().evm_state().contains_key(&beneficiary) {",
  "        if reward.is_zero() {\n            return Ok(())\n        }\n        if evm.ctx_ref().journal().evm_state().contains_key(&beneficiary) {",
  "a zero reward no longer touches the beneficiary"),
 ("o58-reward-pre-london-price", "C07", "src/beneficiary/reward.rs",
  "        let beneficiary_gas_price = if spec.is_enabled_in(SpecId::LONDON) {",
  "        let beneficiary_gas_price = if spec.is_enabled_in(SpecId::BERLIN) {",
  "the base fee is subtracted from the reward price one fork too early"),
 ("o59-history-invalidate-any-incarnation", "C07", "src/beneficiary/history.rs",
  "        if state.incarnation != incarnation {\n            return false;\n        }\n        if matches!(&state.value, EntryValue::Exact(_)) {",
  "        if state.incarnation < incarnation {\n            return false;\n        }\n        if matches!(&state.value, EntryValue::Exact(_)) {",
  "a delayed invalidation of an older incarnation wipes the newer incarnation's exact effect"),
 ("o60-history-record-same-incarnation", "C07", "src/beneficiary/history.rs",
  "        if incarnation <= state.incarnation {\n            return false;\n        }",
  "        if incarnation < state.incarnation {\n            return false;\n        }",
  "a publication for the same incarnation may replace an invalidated entry"),
 ("o61-created-empty-is-deleted", "C08", "src/account.rs",
  "        } else if account.is_created() {\n            Self::Created(&account.info)\n        } else if account.is_empty() {\n            Self::Deleted",
  "        } else if account.is_empty() {\n            Self::Deleted\n        } else if account.is_created() {\n            Self::Created(&account.info)",
  "a created-but-empty account is classified as deleted in multi-version memory"),
 ("o62-commit-error-keeps-going", "C04", "src/scheduler.rs",
  "                        self.abort(AbortReason::CommitError(error.clone()));\n                        return CommitLoopResult { committed: output, error: Some(error) };",
  "                        self.abort(AbortReason::CommitError(error.clone()));\n                        return CommitLoopResult { committed: output, error: None };",
  "a database error during ordered commit is not returned by the commit thread"),
 ("o63-fatal-reported-at-committed-idx", "C04", "src/scheduler/control.rs",
  "                    if let Some(error) = error {\n                        return Err(GrevmError { txid: *txid, error });",
  "                    if let Some(error) = error {\n                        return Err(GrevmError { txid: committed.index().min(*txid), error });",
  "the fatal error's transaction index is clamped to the committed boundary (equal in all correct runs)"),
 ("o64-storage-read-backing-before-reset", "C08", "src/incarnation_db.rs",
  "        if reset_txid.is_some() {\n            return Ok(U256::ZERO);\n        }\n        self.backing_db.storage_ref(address, index)",
  "        let backing = self.backing_db.storage_ref(address, index)?;\n        if reset_txid.is_some() {\n            return Ok(U256::ZERO);\n        }\n        Ok(backing)",
  "a slot masked by a reset marker still consults (and may fail on) the backing store"),
 ("o65-basic-snapshot-missing-for-mv", "C09", "src/incarnation_db.rs",
  "                result = account.clone();\n                read_account = result.as_ref().map(AccountBasic::from);\n                if entry.estimate {",
  "                result = account.clone();\n                if entry.estimate {",
  "an account read from multi-version memory leaves no snapshot, so unchanged nonce/balance/code are republished"),
 ("o66-block-hash-uncached-error-sticky", "C04", "src/parallel_state.rs",
  "            Entry::Vacant(entry) => {\n                Ok(*entry.insert(self.with_metrics(|| self.database.block_hash_ref(number))?))\n            }",
  "            Entry::Vacant(entry) => {\n                let hash = self.with_metrics(|| self.database.block_hash_ref(number)).unwrap_or_default();\n                Ok(*entry.insert(hash))\n            }",
  "a failing block-hash lookup is served (and cached) as the zero hash"),
]

def apply(m):
    mid, prop, f, old, new, note = m
    p = os.path.join(R, f)
    s = open(p).read()
    if mid == "o26-ts-after-scan":
        a = "        let ts = self.scheduler_ctx.logical_timestamp();\n"
        b = "        // update transaction status\n"
        if s.count(a) != 1 or s.count(b) != 1:
            return False
        s = s.replace(a, "").replace(b, a + b)
        # the hook block that used `ts`-adjacent events stays where it was
        open(p, "w").write(s)
        return True
    if s.count(old) != 1:
        print(f"  !! {mid}: anchor matches {s.count(old)} times", flush=True)
        return False
    open(p, "w").write(s.replace(old, new))
    return True

def sh(cmd, cwd=None, timeout=3600, env=None):
    e = dict(os.environ)
    if env: e.update(env)
    r = subprocess.run(cmd, shell=True, cwd=cwd, capture_output=True, text=True, timeout=timeout, env=e)
    return r.returncode, r.stdout + r.stderr

def main():
    budget = sys.argv[1] if len(sys.argv) > 1 else "20"
    only = set(sys.argv[2:])
    out_path = "/verif/seeded/own_matrix.json"
    results = json.load(open(out_path)) if os.path.exists(out_path) else {}
    if LAB:
        subprocess.check_call(["/verif/tools/lab.sh", "sync", LAB])
    for m in MUTS:
        mid, prop = m[0], m[1]
        if only and mid not in only: continue
        rc, o = sh("git status --short -uno", cwd=R)
        if o.strip():
            print("repo not clean, abort"); return
        if not apply(m):
            results[mid] = {"property": prop, "status": "anchor-missing"}; continue
        rc, diff = sh("git diff", cwd=R)
        t0 = time.time()
        rc, o = sh("cargo test --workspace --no-fail-fast --offline 2>&1 | grep 'test result' | head -1", cwd=R)
        baseline_ok = "95 passed; 0 failed" in o
        res = {"property": prop, "note": m[5], "baseline": o.strip()[:80], "baseline_ok": baseline_ok}
        if baseline_ok:
            rc, o = sh(f"./check {prop} quick", cwd=V, env={"VERIF_BUDGET_S": budget, "VERIF_MIRI": os.environ.get("VERIF_MIRI", "0")})
            viol = [l for l in o.splitlines() if l.startswith("VIOLATION")]
            classes = [l.strip() for l in o.splitlines() if "finding class" in l]
            summary = [l for l in o.splitlines() if l.startswith(prop + " ")]
            res.update({"detected": len(viol) > 0, "first": (viol[0][:260] if viol else ""), "classes": classes[:4], "summary": summary[-1] if summary else o[-200:]})
        res["secs"] = round(time.time() - t0)
        os.makedirs(f"/verif/seeded/own/{mid}", exist_ok=True)
        open(f"/verif/seeded/own/{mid}/patch.diff", "w").write(diff)
        sh("git checkout -- .", cwd=R)
        results[mid] = res
        json.dump(results, open(out_path, "w"), indent=1)
        print(f"{mid:42s} {prop} baseline_ok={baseline_ok} detected={res.get('detected')} {res.get('first','')[:150]}", flush=True)

if __name__ == "__main__":
    main()
