#!/bin/bash
# tools/mut.sh <patch.diff> <prop> [budget_s] [tier]  -- apply a seeded change, run one check, undo.
# With LAB=<name> (see tools/lab.sh) this happens in the isolated lab copy; otherwise in /repo + /verif in place.
set -u
P="$(readlink -f "$1")"; PROP="$2"; B="${3:-20}"; T="${4:-quick}"
if [ -n "${LAB:-}" ]; then R=/tmp/lab/$LAB/repo; V=/tmp/lab/$LAB/verif; /verif/tools/lab.sh sync "$LAB"; else R=/repo; V=/verif; fi
cd "$R" || exit 2
if ! git diff --quiet; then echo "$R working tree not clean"; exit 2; fi
git apply "$P" || { echo "patch does not apply"; exit 2; }
cd "$V" && VERIF_BUDGET_S="$B" ./check "$PROP" "$T" 2>&1 | cut -c1-500 | head -${LINES_MAX:-8}
cd "$R" && git checkout -- . && git status --short -uno
