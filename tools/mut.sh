#!/bin/bash
# tools/mut.sh <patch.diff> <prop> [budget_s] [tier]  -- apply a seeded change to /repo, run one check, undo.
set -u
P="$1"; PROP="$2"; B="${3:-20}"; T="${4:-quick}"
cd /repo || exit 2
if ! git diff --quiet; then echo "/repo working tree not clean"; exit 2; fi
git apply "$P" || { echo "patch does not apply"; exit 2; }
cd /verif && VERIF_BUDGET_S="$B" ./check "$PROP" "$T" 2>&1 | cut -c1-500 | head -8
cd /repo && git checkout -- . && git status --short
