#!/bin/bash
# tools/intake.sh <Cxx> <seed-id>  -- copy a sub-agent's SEEDED dir into /verif/seeded/<seed-id>, check the patch applies to /repo HEAD
set -u
P="$1"; ID="$2"
SRC=${3:-/tmp/wt-$P}/SEEDED
DST=/verif/seeded/$ID
mkdir -p "$DST"
cp "$SRC"/patch.diff "$DST"/patch.diff
for f in "$SRC"/*; do b=$(basename "$f"); case "$b" in patch.diff) ;; evidence_*|extra_*) tail -c 3000 "$f" > "$DST/$b" ;; *) cp -r "$f" "$DST/$b" ;; esac; done
cd /repo && git apply --check "$DST/patch.diff" && echo "patch applies to /repo HEAD"
