#!/bin/bash
# tools/lab.sh init|sync|rm <name>
# A "lab" is an isolated copy of the machinery under /tmp/lab/<name>: a git worktree of /repo HEAD (repo/) and a copy of
# the harness whose path dependency points at that worktree (verif/). Seeded changes and mutants are applied there, so
# /repo and /verif/evidence are never touched while mutants are evaluated. Nothing registered in MANIFEST.json uses a lab.
set -eu
CMD="$1"; NAME="$2"; L=/tmp/lab/$NAME
case "$CMD" in
  init)
    mkdir -p /tmp/lab
    [ -d "$L/repo" ] || git -C /repo worktree add --detach "$L/repo" HEAD >/dev/null 2>&1
    [ -d "$L/repo/target" ] || { [ -d /repo/target ] && cp -r /repo/target "$L/repo/target"; }
    mkdir -p "$L/verif/harness"
    [ -d "$L/verif/harness/target" ] || { [ -d /verif/harness/target ] && cp -r /verif/harness/target "$L/verif/harness/target"; rm -rf "$L/verif/harness/target/shards"; }
    "$0" sync "$NAME" ;;
  sync)
    git -C "$L/repo" checkout -q --detach "$(git -C /repo rev-parse HEAD)" 2>/dev/null || true
    rsync -a --delete /verif/harness/src/ "$L/verif/harness/src/"
    cp /verif/harness/Cargo.lock "$L/verif/harness/Cargo.lock"
    sed "s#path = \"/repo\"#path = \"$L/repo\"#" /verif/harness/Cargo.toml > "$L/verif/harness/Cargo.toml"
    cp /verif/check "$L/verif/check"; cp /verif/known_findings.json "$L/verif/known_findings.json"
    grep -q "$L/repo" "$L/verif/harness/Cargo.toml" || { echo "lab: could not redirect the grevm path dependency"; exit 2; } ;;
  rm)
    git -C /repo worktree remove --force "$L/repo" 2>/dev/null || true
    rm -rf "$L"; git -C /repo worktree prune ;;
  *) echo "usage: $0 init|sync|rm <name>"; exit 2 ;;
esac
