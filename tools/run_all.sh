#!/bin/bash
# tools/run_all.sh [tier] [seed] [props...]  -- run registered checks once (from the directory this script lives in); summary on stdout
TIER="${1:-quick}"; export VERIF_SEED="${2:-1}"; shift 2 2>/dev/null
PROPS="${*:-C01 C02 C03 C04 C05 C06 C07 C08 C09 C10 C11 C12 C13 C14 C15 C16 C17}"
cd "$(dirname "$0")/.." || exit 2
for p in $PROPS; do
  ./check $p $TIER 2>&1 | grep -E "^(C[0-9]+ |VIOLATION|KNOWN-FINDING|INCONCLUSIVE|  finding class)" | cut -c1-300
done
