#!/bin/bash
# tools/run_all.sh [tier] [seed]  -- run every registered check once; summary on stdout
TIER="${1:-quick}"; export VERIF_SEED="${2:-1}"
cd /verif
for p in C01 C02 C03 C04 C05 C06 C07 C08 C09 C10 C11 C12 C13 C14 C15 C16 C17; do
  ./check $p $TIER 2>&1 | grep -E "^(C[0-9]+ |VIOLATION|KNOWN-FINDING|INCONCLUSIVE|  finding class)" | cut -c1-220
done
