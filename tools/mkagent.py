#!/usr/bin/env python3
"""tools/mkagent.py <Cxx> <round>  -- create a scratch worktree /tmp/wt<round>-<Cxx> of /repo HEAD (with a copy of
/repo/target for fast builds) and print the sub-agent prompt (property text + already-known changes only)."""
import json, subprocess, sys, os, shutil

KNOWN = {
 "C01": ["`write_new_locations` decided by comparing write-set *sizes* (a moved write no longer rewinds validation)",
         "account reads resolving to the transaction's own previous incarnation", "base-state read not invalidated by a new preceding write"],
 "C02": ["`is_subset` operands swapped in the new-write-location test", "finality timestamp check removed", "validation timestamp captured after the read-set scan",
         "validation comparing only the writer txid, not its incarnation", "estimates accepted by validation"],
 "C03": ["`db_basic` publishing a late database answer unconditionally over a committed account", "commit-time nonce comparison accepting a too-low nonce"],
 "C04": ["'at the commit head' tested when the attempt ends instead of when it starts"],
 "C05": ["the finality loop's second commit wake-up issued only for batches larger than two", "a panicking worker not cancelling its peers", "cancel() not waking the finality thread"],
 "C06": ["reserve planner keyed by replay-relative index on the sequential path", "sequential path not registering custom precompiles"],
 "C07": ["`invalidate` of the beneficiary entry only on a beneficiary-read conflict", "rewards folded newest-first", "beneficiary validation comparing only the newest origin"],
 "C08": ["creation not publishing a storage reset marker", "reset marker comparison `>=` changed to `>`", "write-set-size comparison hiding a destroy that replaces slot writes"],
 "C09": ["`Code(address)` version not recorded in the write set", "code republished only when the account previously had no code"],
 "C10": ["status re-check only on the Vacant insertion path of the cache-filling storage read", "touch_empty_eip161 emitting a transition for an already destroyed account", "bundle builder forgetting reverts_size"],
 "C11": ["journal finalized only after a successful attempt (failed attempt's loads leak into the next attempt)", "sticky facade fault not enforced by the adapter", "sequential path not registering the precompiles"],
 "C12": ["guard testing the bytecode address instead of the frame's target address"],
 "C13": ["`take_while` instead of `filter` over reserve candidates", "own cost included in required_after", "reserve demanding full future cost even when the account never had it"],
 "C14": ["once-only gate implemented as load + store instead of compare-exchange"],
 "C15": ["`rewind_validation_to` returning early when the cursor is already at/below the index", "cursor rewind as load+store", "lower timestamp not carried along the finality prefix",
         "frontier publisher not re-loading after its store", "finality cursor guard removed"],
 "C16": ["`TxDependency::commit` fast path when the cursor has not passed the successor", "commit without the cursor rewind", "remove() not re-checking the current blocker", "add() not re-offering an already finished blocker"],
 "C17": ["a `pending` flag coalescing unparks, cleared just before parking", "SeqCst fences removed from WaitSlot", "validate() notifying only on txid+1 == finality_idx", "finality loop notifying commit before publishing finality"],
}

GLOBAL = [
 "`GrevmExecutor::execute_incarnation` calling `evm.finalize()` only on the Ok path (stale journal accounts leak into the worker's next incarnation) - found four times already, do not use it",
 "moving / reordering `beneficiary.invalidate()`, `mark_mv_estimate()` and `rewind_validation_to()` relative to each other inside `validate()`",
 "changing where `validate()` draws its logical timestamp",
 "deciding `write_new_locations` in `execute_task` by write-set size or by a subset test with swapped operands - found four times already, do not use it",
 "`ParallelStateView::db_basic` inserting the fetched account unconditionally",
 "removing or weakening the SeqCst fences in `WaitSlot` or in `validate()`",
]

def main():
    pid, rnd = sys.argv[1], sys.argv[2]
    wt = f"/tmp/wt{rnd}-{pid}"
    if not os.path.exists(wt):
        subprocess.check_call(["git", "-C", "/repo", "worktree", "add", "--detach", wt, "HEAD"], stdout=subprocess.DEVNULL, stderr=subprocess.DEVNULL)
        if os.path.exists("/repo/target"):
            subprocess.check_call(["cp", "-r", "/repo/target", wt + "/target"])
    prop = None
    for l in open("/verif/properties.jsonl"):
        p = json.loads(l)
        if p["id"] == pid:
            prop = p
    extra = []
    # earlier rounds' kept changes for this property
    for d in sorted(os.listdir("/verif/seeded")):
        mp = f"/verif/seeded/{d}/meta.json"
        if os.path.exists(mp):
            m = json.load(open(mp))
            if m.get("property") == pid and m.get("what"):
                extra.append(m["what"])
    known = KNOWN.get(pid, []) + [e for e in extra] + GLOBAL
    seen, out = set(), []
    for k in known:
        if k not in seen:
            seen.add(k); out.append(k)
    tpl = open("/verif/tools/agent_prompt.md").read()
    print(tpl.replace("{WT}", wt).replace("{PROPERTY}", json.dumps(prop, indent=1)).replace("{KNOWN}", "\n".join("   - " + k for k in out)))

main()
