#!/usr/bin/env python3
"""Additive line inserter: ins.py FILE  (reads edits from stdin as python literal list of
(anchor, 'before'|'after', text, occurrence?)). Anchor must match a whole line (stripped) unless it
matches uniquely as substring. Only inserts lines; never rewrites."""
import sys, ast
path = sys.argv[1]
edits = ast.literal_eval(sys.stdin.read())
lines = open(path).read().split('\n')
for e in edits:
    anchor, where, text = e[0], e[1], e[2]
    occ = e[3] if len(e) > 3 else None
    idxs = [i for i, l in enumerate(lines) if anchor in l]
    if occ is None:
        if len(idxs) != 1:
            sys.exit(f"anchor {anchor!r}: {len(idxs)} matches at {idxs}")
        i = idxs[0]
    else:
        if occ >= len(idxs):
            sys.exit(f"anchor {anchor!r}: only {len(idxs)} matches")
        i = idxs[occ]
    indent = lines[i][:len(lines[i]) - len(lines[i].lstrip())]
    if where == 'after+':   # indent one level deeper (after a line opening a block)
        indent += '    '
        where = 'after'
    new = [(indent + t if t else t) for t in text.split('\n')]
    if where == 'before':
        lines[i:i] = new
    else:
        lines[i+1:i+1] = new
open(path, 'w').write('\n'.join(lines))
