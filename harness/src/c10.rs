//! C10: ParallelState as a stand-in for revm's State.
//!  (a) sequential differential: the same stock-revm EVM over `State` and over `ParallelState`,
//!      interleaved with balance increments/drains, transition merges and bundle extractions,
//!      over several consecutive blocks;
//!  (b) concurrent cache stress through `verif::api::with_split`: readers fill the cache while
//!      the commit handle applies real journal output;
//!  (c) two consecutive blocks through the scheduler on the same `ParallelState`.

use crate::{
    campaign::{Campaign, Finding, ProfileWeights, ShardReport, pick_runcfg},
    compare::{diff_bundle, diff_outcomes, diff_readback, readback},
    db::{FaultDb, FaultPlan, Key, MemDb},
    obs::{self, Class, Profile, obs},
    progs::Mix,
    reference::err_sig,
    rng::{Fnv, Rng},
    run::{cfg_env, probe_addrs, probe_slots},
    world::{ALL_SPECS, BenRole, Case, GenParams, generate},
};
use grevm::{
    GrevmConfig, ParallelState, ParallelTakeBundle, Scheduler, TxExecutionOutcome, verif::api::with_split,
};
use revm::{
    Context, Database, DatabaseCommit, DatabaseRef, ExecuteEvm, MainBuilder, MainContext,
    database_interface::bal::EvmDatabaseError,
};
use revm_context::result::EVMError;
use revm_database::{State, StateBuilder, states::bundle_state::BundleRetention};
use revm_primitives::{Address, U256};
use revm_state::EvmState;
use std::{
    sync::{
        Arc,
        atomic::{AtomicBool, Ordering},
    },
    time::Instant,
};

fn finding(monitor: &str, message: String, iter_seed: u64, extra: serde_json::Value) -> Finding {
    let class = if message.starts_with("readback: storage(") { "storage-slot" } else { "general" };
    Finding {
        property: "C10".into(),
        monitor: monitor.into(),
        owner: "C10".into(),
        signature: format!("{monitor}:{class}"),
        message: message.clone(),
        replay: serde_json::json!({"property": "C10", "monitor": monitor, "message": message, "iter_seed": iter_seed, "detail": extra}),
    }
}

fn lifecycle_params() -> GenParams {
    GenParams {
        family: "pstate-lifecycle",
        specs: ALL_SPECS,
        txs: (8, 24),
        n_eoa: 4,
        n_con: 3,
        mix: Mix { selfdestruct: 5, create: 6, extcode: 3, balance: 3, sload: 10, sstore: 10, call: 8, slots: 3, vmax: 3, len: (4, 12), ..Mix::default() },
        kind_w: [10, 3, 2, 8],
        ben_roles: &[BenRole::PlainEoa, BenRole::Contract, BenRole::Absent],
        auth_pct: 10,
        pre_delegated: 1,
        invalid_pct: 4,
        ..GenParams::default()
    }
}

fn retention(with_reverts: bool) -> BundleRetention {
    if with_reverts { BundleRetention::Reverts } else { BundleRetention::PlainState }
}

pub struct C10;

impl Campaign for C10 {
    fn prop(&self) -> &'static str {
        "C10"
    }
    fn iterate(&self, iter_seed: u64, rep: &mut ShardReport, _deadline: Instant) {
        let mut r = Rng::new(iter_seed);
        match r.below(10) {
            0..=3 => sequential_differential(iter_seed, &mut r, rep),
            4..=6 => concurrent_cache(iter_seed, &mut r, rep),
            _ => two_blocks(iter_seed, &mut r, rep),
        }
    }
}

// ---------------------------------------------------------------------------------------------
// (a) sequential differential
// ---------------------------------------------------------------------------------------------

fn sequential_differential(iter_seed: u64, r: &mut Rng, rep: &mut ShardReport) {
    let case = generate(&lifecycle_params(), r.next());
    let cfg = cfg_env(&case);
    let addrs = probe_addrs(&case);
    let slots = probe_slots(&case);
    let reference: State<_> = StateBuilder::new().with_bundle_update().with_database_ref(case.db.clone()).build();
    let subject = ParallelState::new(case.db.clone(), true, false);
    let mut evm_a = Context::mainnet().with_db(reference).with_cfg(cfg.clone()).with_block(case.block.clone()).build_mainnet();
    let mut evm_b = Context::mainnet().with_db(subject).with_cfg(cfg.clone()).with_block(case.block.clone()).build_mainnet();
    let mut ops: Vec<String> = Vec::new();
    let mut sig = Fnv::default();
    let mut lifecycle_events = 0u64;
    let mut touch_of_destroyed = 0u64;
    let mut detached_reverts = 0u64;
    let mut fail: Option<String> = None;
    let n_blocks = r.range(1, 4) as usize;
    let per_block = case.txs.len().div_ceil(n_blocks);
    'outer: for (i, tx) in case.txs.iter().enumerate() {
        // the same stock EVM over both states
        let ra = evm_a.transact(tx.clone());
        let rb = evm_b.transact(tx.clone());
        match (ra, rb) {
            (Ok(a), Ok(b)) => {
                ops.push(format!("tx{i}: executed"));
                if a.result != b.result {
                    fail = Some(format!("tx {i}: result over ParallelState differs from result over State: {:?} vs {:?}", b.result, a.result));
                    break 'outer;
                }
                let da = crate::compare::canon_delta(&a.state);
                let db_ = crate::compare::canon_delta(&b.state);
                if let Some(d) = crate::compare::diff_delta(&da, &db_) {
                    fail = Some(format!("tx {i}: finalized journal state over ParallelState differs: {d}"));
                    break 'outer;
                }
                for (addr, acc) in da.iter() {
                    if acc.kind != crate::compare::DeltaKind::Updated {
                        lifecycle_events += 1;
                    }
                    if acc.kind == crate::compare::DeltaKind::Deleted &&
                        evm_a.ctx.journaled_state.database.cache.accounts.get(addr).is_some_and(|c| {
                            matches!(c.status, revm_database::AccountStatus::Destroyed | revm_database::AccountStatus::DestroyedAgain)
                        })
                    {
                        touch_of_destroyed += 1;
                    }
                }
                sig.add(da.len() as u64);
                evm_a.ctx.journaled_state.database.commit(a.state);
                evm_b.ctx.journaled_state.database.commit(b.state);
            }
            (Err(ea), Err(eb)) => {
                let sa = match ea {
                    EVMError::Database(EvmDatabaseError::Database(d)) => format!("Database:{d}"),
                    EVMError::Transaction(t) => format!("Transaction:{t:?}"),
                    other => format!("{other:?}"),
                };
                let sb = err_sig(&eb);
                ops.push(format!("tx{i}: {sb}"));
                if sa != sb {
                    fail = Some(format!("tx {i}: error over ParallelState `{sb}` differs from error over State `{sa}`"));
                    break 'outer;
                }
            }
            (a, b) => {
                fail = Some(format!("tx {i}: State gives {:?} but ParallelState gives {:?}", a.map(|x| x.result), b.map(|x| x.result)));
                break 'outer;
            }
        }
        // interleaved state operations
        let sa = &mut evm_a.ctx.journaled_state.database;
        let sb = &mut evm_b.ctx.journaled_state.database;
        let end_of_block = (i + 1) % per_block == 0 || i + 1 == case.txs.len();
        let mut op = r.below(12);
        if end_of_block {
            op = 6 + r.below(3);
        }
        match op {
            0 | 1 => {
                let a = *r.pick(&addrs);
                let amt = r.below(3) as u128 * r.range(1, 1000) as u128;
                ops.push(format!("increment_balances({a}, {amt})"));
                // revm side: CacheAccount::increment_balance + apply_transition
                if amt > 0 {
                    let t = sa.load_cache_account(a).expect("memdb").increment_balance(amt);
                    if let Some(t) = t {
                        sa.apply_transition(vec![(a, t)]);
                    }
                }
                sb.increment_balances(vec![(a, amt)]).expect("memdb");
            }
            2 => {
                let a = *r.pick(&addrs);
                ops.push(format!("drain_balances({a})"));
                // u128 overflow of a near-max balance would panic in both; keep to modest balances
                let bal = sa.basic(a).ok().flatten().map(|i| i.balance).unwrap_or_default();
                if bal < U256::from(u128::MAX) {
                    let (drained, t) = sa.load_cache_account(a).expect("memdb").drain_balance();
                    sa.apply_transition(vec![(a, t)]);
                    let got = sb.drain_balances(vec![a]).expect("memdb");
                    if got != vec![drained] {
                        fail = Some(format!("drain_balances({a}) returned {got:?}, revm drained {drained}"));
                        break 'outer;
                    }
                }
            }
            6 => {
                let wr = r.chance(2, 3);
                ops.push(format!("merge_transitions(reverts={wr})"));
                sa.merge_transitions(retention(wr));
                sb.merge_transitions(retention(wr));
            }
            7 => {
                let wr = r.chance(2, 3);
                ops.push(format!("merge_transitions + take_bundle vs parallel_take_bundle(reverts={wr})"));
                sa.merge_transitions(retention(wr));
                let ba = sa.take_bundle();
                let bb = sb.parallel_take_bundle(retention(wr));
                if let Some(d) = diff_bundle(&ba, &bb) {
                    fail = Some(format!("after {} ops: parallel_take_bundle differs from revm: {d}", ops.len()));
                    break 'outer;
                }
            }
            8 => {
                let wr = r.chance(2, 3);
                ops.push(format!("merge_transitions + take_bundle (both, reverts={wr})"));
                sa.merge_transitions(retention(wr));
                sb.merge_transitions(retention(wr));
                let ba = sa.take_bundle();
                let bb = sb.take_bundle();
                if let Some(d) = diff_bundle(&ba, &bb) {
                    fail = Some(format!("after {} ops: take_bundle differs from revm: {d}", ops.len()));
                    break 'outer;
                }
            }
            9 => {
                // a pre-populated bundle whose reverts were detached (e.g. flushed to a changeset
                // store) keeps its accounts: later merges must still combine with them
                ops.push("bundle_state.take_all_reverts()".into());
                let ra = sa.bundle_state.take_all_reverts();
                let rb = sb.bundle_state.take_all_reverts();
                if ra != rb {
                    fail = Some(format!("after {} ops: take_all_reverts differs from revm", ops.len()));
                    break 'outer;
                }
                detached_reverts += 1;
            }
            10 => {
                let n = r.range(1, 2) as usize;
                ops.push(format!("bundle_state.take_n_reverts({n})"));
                let ra = sa.bundle_state.take_n_reverts(n);
                let rb = sb.bundle_state.take_n_reverts(n);
                if ra != rb {
                    fail = Some(format!("after {} ops: take_n_reverts({n}) differs from revm", ops.len()));
                    break 'outer;
                }
                detached_reverts += 1;
            }
            _ => {}
        }
        // transitions and the accumulated bundle must agree after every operation
        let ta = sa.transition_state.as_ref().map(|t| &t.transitions);
        let tb = sb.transition_state.as_ref().map(|t| &t.transitions);
        if ta != tb {
            let detail = match (ta, tb) {
                (Some(a), Some(b)) => {
                    let mut d = String::new();
                    for (k, va) in a.iter() {
                        if b.get(k) != Some(va) {
                            d = format!("{k}: revm {va:?} vs grevm {:?}", b.get(k));
                            break;
                        }
                    }
                    if d.is_empty() {
                        for k in b.keys() {
                            if !a.contains_key(k) {
                                d = format!("{k}: only in grevm: {:?}", b.get(k));
                                break;
                            }
                        }
                    }
                    d
                }
                _ => "one side has no transition state".into(),
            };
            fail = Some(format!("after {} ops ({}): transition_state differs: {detail}", ops.len(), ops.last().unwrap()));
            break 'outer;
        }
        if let Some(d) = diff_bundle(&sa.bundle_state, &sb.bundle_state) {
            fail = Some(format!("after {} ops: accumulated bundle_state differs: {d}", ops.len()));
            break 'outer;
        }
        if r.chance(1, 4) || end_of_block {
            let ra = readback(&mut FlatState(sa), &addrs, &slots);
            let rb = readback(sb, &addrs, &slots);
            if let Some(d) = diff_readback(&ra, &rb) {
                fail = Some(format!("after {} ops ({}): {d}", ops.len(), ops.last().unwrap()));
                break 'outer;
            }
        }
    }
    rep.evaluations += 1;
    sig.add(ops.len() as u64);
    let key = (case.hash, sig.0);
    rep.distinct.insert(key);
    if lifecycle_events > 0 {
        rep.distinct_nontrivial.insert(key);
    }
    rep.bump("sequential_histories", 1);
    rep.bump("sequential_ops", ops.len() as u64);
    rep.bump("lifecycle_events_destroy_create_emptytouch", lifecycle_events);
    rep.bump("deletions_of_already_destroyed_accounts", touch_of_destroyed);
    rep.bump("bundle_revert_detachments", detached_reverts);
    if let Some(msg) = fail {
        rep.findings.push(finding("PSTATE", msg, iter_seed, serde_json::json!({"case": case.summary(), "ops": ops})));
        return;
    }
    if rep.samples.len() < 2 && lifecycle_events > 1 {
        rep.samples.push(serde_json::json!({"kind": "sequential State vs ParallelState history", "case": case.summary(), "ops": ops}));
    }
}

/// `State` with a flat error for the shared read-back helper.
struct FlatState<'a, DB>(&'a mut State<DB>);

impl<DB: Database> Database for FlatState<'_, DB>
where
    DB::Error: std::fmt::Display,
{
    type Error = crate::db::DbErr;
    fn basic(&mut self, a: Address) -> Result<Option<revm_state::AccountInfo>, Self::Error> {
        self.0.basic(a).map_err(|e| crate::db::DbErr(e.to_string()))
    }
    fn code_by_hash(&mut self, h: revm_primitives::B256) -> Result<revm_state::Bytecode, Self::Error> {
        self.0.code_by_hash(h).map_err(|e| crate::db::DbErr(e.to_string()))
    }
    fn storage(&mut self, a: Address, i: U256) -> Result<U256, Self::Error> {
        Database::storage(self.0, a, i).map_err(|e| crate::db::DbErr(e.to_string()))
    }
    fn block_hash(&mut self, n: u64) -> Result<revm_primitives::B256, Self::Error> {
        self.0.block_hash(n).map_err(|e| crate::db::DbErr(e.to_string()))
    }
}

// ---------------------------------------------------------------------------------------------
// (b) concurrent cache stress
// ---------------------------------------------------------------------------------------------

/// In-order journal outputs of a block (stock revm over `State`).
fn journal_outputs(case: &Case) -> (Vec<EvmState>, State<revm::database_interface::WrapDatabaseRef<Arc<MemDb>>>) {
    let state: State<_> = StateBuilder::new().with_bundle_update().with_database_ref(case.db.clone()).build();
    let mut evm = Context::mainnet().with_db(state).with_cfg(cfg_env(case)).with_block(case.block.clone()).build_mainnet();
    let mut out = Vec::new();
    for tx in case.txs.iter() {
        if let Ok(ras) = evm.transact(tx.clone()) {
            out.push(ras.state.clone());
            evm.ctx.journaled_state.database.commit(ras.state);
        }
    }
    (out, evm.ctx.journaled_state.database)
}

const COLD_SLOTS: u64 = 20;

fn concurrent_cache(iter_seed: u64, r: &mut Rng, rep: &mut ShardReport) {
    let mut params = lifecycle_params();
    params.txs = (4, 12);
    params.invalid_pct = 0;
    let mut case = generate(&params, r.next());
    // many non-zero "cold" slots per contract: there is always an uncached slot whose fetch is in
    // flight when a commit lands, and a stale value is distinguishable from the zero a reset gives
    {
        let mut db = (*case.db).clone();
        for (a, seed) in db.accounts.iter_mut() {
            if seed.code.is_some() {
                for s in 0..COLD_SLOTS {
                    seed.storage.entry(U256::from(s)).or_insert(U256::from(0xD000 + s + (a.as_slice()[19] as u64) * 256));
                }
            }
        }
        case.db = Arc::new(db);
    }
    let (states, mut reference) = journal_outputs(&case);
    let addrs = probe_addrs(&case);
    let slots: Vec<U256> = (0..COLD_SLOTS).map(U256::from).collect();
    // slow, fault-free database so that readers sit between fetch and insert while commits land
    let mut plan = FaultPlan::default();
    if r.chance(4, 5) {
        for a in &addrs {
            if r.chance(1, 2) {
                for s in &slots {
                    plan.latency_us.insert(Key::Storage(*a, *s), *r.pick(&[50u64, 200, 800]));
                }
            }
        }
    }
    let db = Arc::new(FaultDb::new(case.db.clone(), plan));
    let mut subject = ParallelState::new(db.clone(), true, false);
    let readers = r.range(2, 3) as usize;
    let profile = match r.below(4) {
        0 => Profile::quiet(),
        1 => Profile::focus(Class::Cache, 700, *r.pick(&[100u32, 500, 1500])),
        2 => Profile::focus(Class::Commit, 700, *r.pick(&[100u32, 500])),
        _ => Profile::director(obs::D_CACHE, "cache"),
    };
    obs().begin_run(&profile, r.next());
    let stop = AtomicBool::new(false);
    let seeds: Vec<u64> = (0..readers).map(|_| r.next()).collect();
    let mut destroyed_or_created = 0u64;
    for st in &states {
        for acc in st.values() {
            if acc.is_touched() && (acc.is_selfdestructed() || acc.is_created() || acc.is_empty()) {
                destroyed_or_created += 1;
            }
        }
    }
    let reads_done = with_split(&mut subject, |view, mut commit| {
        std::thread::scope(|s| {
            let mut hs = Vec::new();
            for k in 0..readers {
                let (stop, addrs, slots) = (&stop, &addrs, &slots);
                let seed = seeds[k];
                hs.push(s.spawn(move || {
                    let mut tr = Rng::new(seed);
                    let mut n = 0u64;
                    while !stop.load(Ordering::Acquire) {
                        let a = *tr.pick(addrs);
                        match tr.below(4) {
                            0 => {
                                let _ = view.basic_ref(a);
                            }
                            _ => {
                                let _ = view.storage_ref(a, *tr.pick(slots));
                            }
                        }
                        n += 1;
                    }
                    n
                }));
            }
            for st in &states {
                // like the executing worker did, make sure every account of the result is cached
                for a in st.keys() {
                    let _ = view.basic_ref(*a);
                }
                commit.commit(st.clone());
                obs().signal_commit();
                if !cfg!(miri) {
                    std::thread::sleep(std::time::Duration::from_micros(r.below(400)));
                }
            }
            stop.store(true, Ordering::Release);
            hs.into_iter().map(|h| h.join().unwrap()).sum::<u64>()
        })
    });
    let _ = obs().end_run();
    db.disarm();
    rep.evaluations += 1;
    let ra = readback(&mut FlatState(&mut reference), &addrs, &slots);
    let rb = readback(&mut subject, &addrs, &slots);
    let key = (case.hash, reads_done);
    rep.distinct.insert(key);
    if destroyed_or_created > 0 {
        rep.distinct_nontrivial.insert(key);
    }
    rep.bump("cache_stress_runs", 1);
    rep.bump("cache_stress_concurrent_reads", reads_done);
    rep.bump("cache_stress_commits", states.len() as u64);
    rep.bump("cache_stress_destroy_create_commits", destroyed_or_created);
    if let Some(d) = diff_readback(&ra, &rb) {
        rep.findings.push(finding(
            "READBACK",
            d,
            iter_seed,
            serde_json::json!({"part": "concurrent cache stress (with_split): readers racing commits of real journal output", "case": case.summary(), "profile": profile.name}),
        ));
        return;
    }
    // transitions merged afterwards must equal revm's too (commit path only)
    reference.merge_transitions(BundleRetention::Reverts);
    let ba = reference.take_bundle();
    let bb = subject.parallel_take_bundle(BundleRetention::Reverts);
    if let Some(d) = diff_bundle(&ba, &bb) {
        rep.findings.push(finding("PSTATE", format!("bundle after concurrent readers differs: {d}"), iter_seed, serde_json::json!({"case": case.summary()})));
    }
}

// ---------------------------------------------------------------------------------------------
// (c) two consecutive blocks through the scheduler on one ParallelState
// ---------------------------------------------------------------------------------------------

fn two_blocks(iter_seed: u64, r: &mut Rng, rep: &mut ShardReport) {
    let mut params = lifecycle_params();
    params.txs = (8, 20);
    params.invalid_pct = 0;
    let case = generate(&params, r.next());
    let split = case.txs.len() / 2;
    let addrs = probe_addrs(&case);
    let slots = probe_slots(&case);
    let cfg = cfg_env(&case);
    let with_reverts = r.chance(3, 4);
    // between the blocks the first block's reverts may be detached from the accumulated bundle
    let detach = r.chance(1, 3);
    // reference: both blocks on one State, merge after each
    let reference: State<_> = StateBuilder::new().with_bundle_update().with_database_ref(case.db.clone()).build();
    let mut evm = Context::mainnet().with_db(reference).with_cfg(cfg.clone()).with_block(case.block.clone()).build_mainnet();
    let mut ref_outcomes = Vec::new();
    for (i, tx) in case.txs.iter().enumerate() {
        match evm.transact(tx.clone()) {
            Ok(ras) => {
                evm.ctx.journaled_state.database.commit(ras.state);
                ref_outcomes.push(TxExecutionOutcome::Executed(ras.result));
            }
            Err(EVMError::Transaction(t)) => ref_outcomes.push(TxExecutionOutcome::Skipped(t)),
            Err(e) => {
                rep.inconclusive.push(format!("C10 two_blocks reference error {e:?}"));
                return;
            }
        }
        if i + 1 == split {
            evm.ctx.journaled_state.database.merge_transitions(retention(with_reverts));
            if detach {
                let _ = evm.ctx.journaled_state.database.bundle_state.take_all_reverts();
            }
        }
    }
    let mut reference = evm.ctx.journaled_state.database;
    reference.merge_transitions(retention(with_reverts));
    let ref_bundle = reference.take_bundle();
    // subject: two schedulers, one ParallelState
    let mut plan = FaultPlan::default();
    if r.chance(1, 2) {
        for a in &addrs {
            if r.chance(1, 4) {
                for s in &slots {
                    plan.latency_us.insert(Key::Storage(*a, *s), *r.pick(&[100u64, 500, 2000]));
                }
            }
        }
    }
    let db = Arc::new(FaultDb::new(case.db.clone(), plan.clone()));
    let pw = ProfileWeights {
        focus_classes: &[Class::Cache, Class::Commit, Class::ExecStart],
        directors: obs::D_CACHE | obs::D_COMMIT_HEAD | obs::D_FINISH_AT_HEAD,
        ..ProfileWeights::default()
    };
    let mut state = ParallelState::new(db.clone(), true, false);
    let mut outcomes = Vec::new();
    let mut sig = Fnv::default();
    let mut profile_names = Vec::new();
    for (b, range) in [(0usize, 0..split), (1, split..case.txs.len())] {
        let rc = pick_runcfg(r, range.len(), &pw, if b == 1 { 30 } else { 0 });
        profile_names.push(rc.describe());
        let txs = Arc::new(case.txs[range].to_vec());
        let config = GrevmConfig {
            concurrency_level: rc.workers,
            force_sequential: rc.force_sequential,
            min_parallel_txs: rc.min_parallel_txs,
            delegated_safety: grevm::DelegatedSafetyConfig::disabled(),
        };
        let scheduler = Scheduler::new_with_runtime_config(cfg.clone(), case.block.clone(), txs, state, None, config);
        obs().begin_run(&rc.profile, rc.seed);
        let res = scheduler.execute();
        let trace = obs().end_run();
        sig.add(trace.len() as u64);
        let (o, s) = scheduler.take_result_and_state();
        state = s;
        if let Err(e) = res {
            let tail: Vec<String> = trace.iter().rev().take(60).rev().map(|r| format!("{} t{} {:?}", r.seq, r.thread, r.ev)).collect();
            rep.findings.push(finding(
                "EQ",
                format!("block {b}: execute() failed: tx {} {}", e.txid, err_sig(&e.error)),
                iter_seed,
                serde_json::json!({"case": case.summary(), "split": split, "configs": profile_names, "trace_tail": tail}),
            ));
            rep.evaluations += 1;
            return;
        }
        outcomes.extend(o);
        if std::env::var("VERIF_DEBUG").is_ok() {
            for kv in state.cache.accounts.iter() {
                if let Some(info) = &kv.value().account &&
                    !info.is_empty_code_hash()
                {
                    eprintln!(
                        "DBG block {b} cache account {} hash {} code_some={} status={:?} in_contracts={} in_db={}",
                        kv.key(),
                        info.code_hash,
                        info.code.is_some(),
                        kv.value().status,
                        state.cache.contracts.contains_key(&info.code_hash),
                        case.db.code_by_hash.contains_key(&info.code_hash)
                    );
                }
            }
            for rec in &trace {
                if let obs::Ev::State { txid, path, delta, .. } = &rec.ev {
                    eprintln!("DBG block {b} commit {path:?} tx {txid}: {:?}", delta.iter().map(|(a, d)| (crate::db::short_addr(a), format!("{:?}", d.kind), format!("{}", d.code_hash).chars().take(10).collect::<String>())).collect::<Vec<_>>());
                }
            }
        }
        if b == 0 {
            state.merge_transitions(retention(with_reverts));
            if detach {
                let _ = state.bundle_state.take_all_reverts();
                rep.bump("bundle_revert_detachments", 1);
            }
        }
    }
    db.disarm();
    let bundle = state.parallel_take_bundle(retention(with_reverts));
    rep.evaluations += 1;
    let key = (case.hash, sig.0);
    rep.distinct.insert(key);
    rep.distinct_nontrivial.insert(key);
    rep.bump("two_block_runs", 1);
    let detail = serde_json::json!({"part": "two consecutive blocks on one ParallelState", "case": case.summary(), "split": split, "configs": profile_names, "db": plan.describe()});
    if let Some(d) = diff_outcomes(&ref_outcomes, &outcomes) {
        rep.findings.push(finding("EQ", d, iter_seed, detail));
        return;
    }
    if let Some(d) = diff_bundle(&ref_bundle, &bundle) {
        rep.findings.push(finding("EQ", d, iter_seed, detail));
        return;
    }
    let ra = readback(&mut FlatState(&mut reference), &addrs, &slots);
    let rb = readback(&mut state, &addrs, &slots);
    if let Some(d) = diff_readback(&ra, &rb) {
        rep.findings.push(finding("READBACK", d, iter_seed, detail));
    }
}
