//! Tiny two-pass EVM assembler with 2-byte labels.

#[derive(Clone, Debug)]
pub enum Item {
    Op(u8),
    Push(Vec<u8>),
    /// PUSH2 <offset of label>
    PushLabel(usize),
    /// Emits a JUMPDEST and defines the label at it.
    JumpDest(usize),
    /// Defines the label at the current offset without emitting anything.
    Mark(usize),
    Raw(Vec<u8>),
}

pub mod op {
    pub const STOP: u8 = 0x00;
    pub const ADD: u8 = 0x01;
    pub const MUL: u8 = 0x02;
    pub const SUB: u8 = 0x03;
    pub const MOD: u8 = 0x06;
    pub const LT: u8 = 0x10;
    pub const EQ: u8 = 0x14;
    pub const ISZERO: u8 = 0x15;
    pub const AND: u8 = 0x16;
    pub const OR: u8 = 0x17;
    pub const XOR: u8 = 0x18;
    pub const ADDRESS: u8 = 0x30;
    pub const BALANCE: u8 = 0x31;
    pub const ORIGIN: u8 = 0x32;
    pub const CALLER: u8 = 0x33;
    pub const CALLVALUE: u8 = 0x34;
    pub const CALLDATALOAD: u8 = 0x35;
    pub const CALLDATASIZE: u8 = 0x36;
    pub const CALLDATACOPY: u8 = 0x37;
    pub const CODECOPY: u8 = 0x39;
    pub const GASPRICE: u8 = 0x3a;
    pub const EXTCODESIZE: u8 = 0x3b;
    pub const EXTCODECOPY: u8 = 0x3c;
    pub const EXTCODEHASH: u8 = 0x3f;
    pub const BLOCKHASH: u8 = 0x40;
    pub const COINBASE: u8 = 0x41;
    pub const TIMESTAMP: u8 = 0x42;
    pub const NUMBER: u8 = 0x43;
    pub const SELFBALANCE: u8 = 0x47;
    pub const BASEFEE: u8 = 0x48;
    pub const POP: u8 = 0x50;
    pub const MLOAD: u8 = 0x51;
    pub const MSTORE: u8 = 0x52;
    pub const SLOAD: u8 = 0x54;
    pub const SSTORE: u8 = 0x55;
    pub const JUMP: u8 = 0x56;
    pub const JUMPI: u8 = 0x57;
    pub const GAS: u8 = 0x5a;
    pub const JUMPDEST: u8 = 0x5b;
    pub const TLOAD: u8 = 0x5c;
    pub const TSTORE: u8 = 0x5d;
    pub const DUP1: u8 = 0x80;
    pub const SWAP1: u8 = 0x90;
    pub const LOG1: u8 = 0xa1;
    pub const CREATE: u8 = 0xf0;
    pub const CALL: u8 = 0xf1;
    pub const CALLCODE: u8 = 0xf2;
    pub const RETURN: u8 = 0xf3;
    pub const DELEGATECALL: u8 = 0xf4;
    pub const CREATE2: u8 = 0xf5;
    pub const STATICCALL: u8 = 0xfa;
    pub const REVERT: u8 = 0xfd;
    pub const INVALID: u8 = 0xfe;
    pub const SELFDESTRUCT: u8 = 0xff;
}

#[derive(Default, Clone, Debug)]
pub struct Asm {
    pub items: Vec<Item>,
    next_label: usize,
}

impl Asm {
    pub fn new() -> Self {
        Self::default()
    }
    pub fn label(&mut self) -> usize {
        self.next_label += 1;
        self.next_label - 1
    }
    pub fn op(&mut self, o: u8) -> &mut Self {
        self.items.push(Item::Op(o));
        self
    }
    pub fn ops(&mut self, os: &[u8]) -> &mut Self {
        for o in os {
            self.items.push(Item::Op(*o));
        }
        self
    }
    /// Minimal-width PUSH of an integer (PUSH1 0 for zero; never PUSH0, which is Shanghai+).
    pub fn push(&mut self, v: u128) -> &mut Self {
        let bytes = v.to_be_bytes();
        let first = bytes.iter().position(|b| *b != 0).unwrap_or(15);
        self.items.push(Item::Push(bytes[first..].to_vec()));
        self
    }
    pub fn push_bytes(&mut self, b: &[u8]) -> &mut Self {
        assert!(!b.is_empty() && b.len() <= 32);
        self.items.push(Item::Push(b.to_vec()));
        self
    }
    pub fn push_label(&mut self, l: usize) -> &mut Self {
        self.items.push(Item::PushLabel(l));
        self
    }
    pub fn jumpdest(&mut self, l: usize) -> &mut Self {
        self.items.push(Item::JumpDest(l));
        self
    }
    pub fn mark(&mut self, l: usize) -> &mut Self {
        self.items.push(Item::Mark(l));
        self
    }
    pub fn raw(&mut self, b: &[u8]) -> &mut Self {
        self.items.push(Item::Raw(b.to_vec()));
        self
    }

    pub fn assemble(&self) -> Vec<u8> {
        let mut offsets = vec![usize::MAX; self.next_label];
        let mut pc = 0usize;
        for it in &self.items {
            match it {
                Item::Op(_) => pc += 1,
                Item::Push(b) => pc += 1 + b.len(),
                Item::PushLabel(_) => pc += 3,
                Item::JumpDest(l) => {
                    offsets[*l] = pc;
                    pc += 1;
                }
                Item::Mark(l) => offsets[*l] = pc,
                Item::Raw(b) => pc += b.len(),
            }
        }
        assert!(pc < 0x10000, "program too large for 2-byte labels");
        let mut out = Vec::with_capacity(pc);
        for it in &self.items {
            match it {
                Item::Op(o) => out.push(*o),
                Item::Push(b) => {
                    out.push(0x5f + b.len() as u8);
                    out.extend_from_slice(b);
                }
                Item::PushLabel(l) => {
                    let off = offsets[*l];
                    assert!(off != usize::MAX, "undefined label {l}");
                    out.push(0x61);
                    out.push((off >> 8) as u8);
                    out.push(off as u8);
                }
                Item::JumpDest(_) => out.push(op::JUMPDEST),
                Item::Mark(_) => {}
                Item::Raw(b) => out.extend_from_slice(b),
            }
        }
        out
    }
}
