//! In-memory backing database and a fault/latency/panic-injecting wrapper.

use parking_lot::Mutex;
use revm::DatabaseRef;
use revm_context::DBErrorMarker;
use revm_primitives::{Address, B256, KECCAK_EMPTY, U256, keccak256};
use revm_state::{AccountInfo, Bytecode};
use std::{
    collections::{BTreeMap, HashMap},
    fmt,
    sync::{
        Arc,
        atomic::{AtomicBool, AtomicU64, Ordering},
    },
    time::Duration,
};

#[derive(Clone, Debug, PartialEq, Eq)]
pub struct DbErr(pub String);

impl fmt::Display for DbErr {
    fn fmt(&self, f: &mut fmt::Formatter<'_>) -> fmt::Result {
        f.write_str(&self.0)
    }
}
impl std::error::Error for DbErr {}
impl DBErrorMarker for DbErr {}

#[derive(Clone, Debug, Default, PartialEq, Eq)]
pub struct AccountSeed {
    pub balance: U256,
    pub nonce: u64,
    pub code: Option<Vec<u8>>,
    pub storage: BTreeMap<U256, U256>,
}

/// Plain in-memory state.
#[derive(Clone, Debug, Default)]
pub struct MemDb {
    pub accounts: BTreeMap<Address, AccountSeed>,
    pub code_by_hash: HashMap<B256, Bytecode>,
    /// Answer a lookup of an unknown code hash with empty code (as revm's `EmptyDB` / `CacheDB`
    /// do) instead of an error. In-order execution never asks for a hash the pre-state does not
    /// hold, so the reference is unaffected; an engine that asks for code it should have found in
    /// its own block-local versions is no longer rescued by the error-and-retry path.
    pub lenient_code: bool,
}

impl MemDb {
    pub fn new(accounts: BTreeMap<Address, AccountSeed>) -> Self {
        let mut code_by_hash = HashMap::new();
        for seed in accounts.values() {
            if let Some(code) = &seed.code {
                let bc = Bytecode::new_raw(code.clone().into());
                code_by_hash.insert(bc.hash_slow(), bc);
            }
        }
        Self { accounts, code_by_hash, lenient_code: false }
    }

    pub fn info(&self, address: Address) -> Option<AccountInfo> {
        self.accounts.get(&address).map(|seed| {
            let code_hash = match &seed.code {
                Some(code) if !code.is_empty() => keccak256(code),
                _ => KECCAK_EMPTY,
            };
            AccountInfo { balance: seed.balance, nonce: seed.nonce, code_hash, code: None, ..Default::default() }
        })
    }
}

impl DatabaseRef for MemDb {
    type Error = DbErr;
    fn basic_ref(&self, address: Address) -> Result<Option<AccountInfo>, DbErr> {
        Ok(self.info(address))
    }
    fn code_by_hash_ref(&self, code_hash: B256) -> Result<Bytecode, DbErr> {
        if code_hash == KECCAK_EMPTY {
            return Ok(Bytecode::default());
        }
        match self.code_by_hash.get(&code_hash) {
            Some(code) => Ok(code.clone()),
            None if self.lenient_code => Ok(Bytecode::default()),
            None => Err(DbErr(format!("missing code {code_hash}"))),
        }
    }
    fn storage_ref(&self, address: Address, index: U256) -> Result<U256, DbErr> {
        Ok(self
            .accounts
            .get(&address)
            .and_then(|a| a.storage.get(&index).copied())
            .unwrap_or_default())
    }
    fn block_hash_ref(&self, number: u64) -> Result<B256, DbErr> {
        Ok(keccak256(number.to_be_bytes()))
    }
}

#[derive(Clone, Debug, PartialEq, Eq, Hash, PartialOrd, Ord)]
pub enum Key {
    Basic(Address),
    Storage(Address, U256),
    Code(B256),
    BlockHash(u64),
}

impl Key {
    pub fn short(&self) -> String {
        match self {
            Key::Basic(a) => format!("basic:{}", short_addr(a)),
            Key::Storage(a, s) => format!("slot:{}:{}", short_addr(a), s),
            Key::Code(h) => format!("code:{}", &format!("{h}")[..10]),
            Key::BlockHash(n) => format!("blockhash:{n}"),
        }
    }
}

pub fn short_addr(a: &Address) -> String {
    let s = format!("{a:x}");
    let t = s.trim_start_matches('0');
    format!("0x{}", if t.is_empty() { "0" } else { t })
}

#[derive(Clone, Debug, PartialEq, Eq)]
pub enum FaultMode {
    /// Every access fails.
    Persistent,
    /// Only the n-th access (1-based) fails.
    FailNth(u32),
    /// Every access panics with a recognisable payload.
    Panic,
    /// The n-th access panics.
    PanicNth(u32),
}

#[derive(Clone, Debug, Default)]
pub struct FaultPlan {
    pub faults: BTreeMap<Key, FaultMode>,
    /// Per-key latency in microseconds.
    pub latency_us: BTreeMap<Key, u64>,
    /// Latency applied to every other access.
    pub default_latency_us: u64,
}

impl FaultPlan {
    pub fn is_empty(&self) -> bool {
        self.faults.is_empty() && self.latency_us.is_empty() && self.default_latency_us == 0
    }
    pub fn describe(&self) -> String {
        let f: Vec<String> = self.faults.iter().map(|(k, m)| format!("{}={m:?}", k.short())).collect();
        let l: Vec<String> = self.latency_us.iter().map(|(k, us)| format!("{}~{us}us", k.short())).collect();
        format!("faults[{}] latency[{}] default={}us", f.join(","), l.join(","), self.default_latency_us)
    }
}

pub const PANIC_PREFIX: &str = "verif-injected-panic";

/// Number of threads currently inside an injected database latency.
pub static IN_DB_DELAY: AtomicU64 = AtomicU64::new(0);

/// Fault-injecting wrapper. Counters are per instance, so the reference run and every grevm run
/// get their own fresh instantiation of the same plan.
#[derive(Debug)]
pub struct FaultDb {
    inner: Arc<MemDb>,
    plan: FaultPlan,
    counts: Mutex<HashMap<Key, u32>>,
    touched: Mutex<BTreeMap<Key, u32>>,
    armed: AtomicBool,
    pub faults_fired: AtomicU64,
    /// Index of the transaction the (in-order) caller is executing; keys are logged against it.
    marker: std::sync::atomic::AtomicUsize,
    by_marker: Mutex<Vec<(usize, Key)>>,
}

impl FaultDb {
    pub fn new(inner: Arc<MemDb>, plan: FaultPlan) -> Self {
        Self {
            inner,
            plan,
            counts: Mutex::new(HashMap::new()),
            touched: Mutex::new(BTreeMap::new()),
            armed: AtomicBool::new(true),
            faults_fired: AtomicU64::new(0),
            marker: std::sync::atomic::AtomicUsize::new(usize::MAX),
            by_marker: Mutex::new(Vec::new()),
        }
    }

    /// Stop injecting faults and latency (used for read-back after the run).
    pub fn disarm(&self) {
        self.armed.store(false, Ordering::SeqCst);
    }

    pub fn set_marker(&self, i: usize) {
        self.marker.store(i, Ordering::SeqCst);
    }

    /// `(marker, key)` for every access made while a marker was set.
    pub fn touched_by_marker(&self) -> Vec<(usize, Key)> {
        self.by_marker.lock().clone()
    }

    pub fn touched(&self) -> BTreeMap<Key, u32> {
        self.touched.lock().clone()
    }

    fn gate(&self, key: Key) -> Result<(), DbErr> {
        if !self.armed.load(Ordering::SeqCst) {
            return Ok(());
        }
        *self.touched.lock().entry(key.clone()).or_insert(0) += 1;
        let m = self.marker.load(Ordering::SeqCst);
        if m != usize::MAX {
            self.by_marker.lock().push((m, key.clone()));
        }
        let lat = self.plan.latency_us.get(&key).copied().unwrap_or(self.plan.default_latency_us);
        if lat > 0 {
            IN_DB_DELAY.fetch_add(1, Ordering::SeqCst);
            std::thread::sleep(Duration::from_micros(lat));
            IN_DB_DELAY.fetch_sub(1, Ordering::SeqCst);
        }
        if let Some(mode) = self.plan.faults.get(&key) {
            let n = {
                let mut counts = self.counts.lock();
                let c = counts.entry(key.clone()).or_insert(0);
                *c += 1;
                *c
            };
            let fire = match mode {
                FaultMode::Persistent | FaultMode::Panic => true,
                FaultMode::FailNth(k) | FaultMode::PanicNth(k) => n == *k,
            };
            if fire {
                self.faults_fired.fetch_add(1, Ordering::SeqCst);
                match mode {
                    FaultMode::Panic | FaultMode::PanicNth(_) => {
                        panic!("{PANIC_PREFIX} {}", key.short())
                    }
                    _ => return Err(DbErr(format!("injected fault at {}", key.short()))),
                }
            }
        }
        Ok(())
    }
}

impl DatabaseRef for FaultDb {
    type Error = DbErr;
    fn basic_ref(&self, address: Address) -> Result<Option<AccountInfo>, DbErr> {
        self.gate(Key::Basic(address))?;
        self.inner.basic_ref(address)
    }
    fn code_by_hash_ref(&self, code_hash: B256) -> Result<Bytecode, DbErr> {
        self.gate(Key::Code(code_hash))?;
        self.inner.code_by_hash_ref(code_hash)
    }
    fn storage_ref(&self, address: Address, index: U256) -> Result<U256, DbErr> {
        self.gate(Key::Storage(address, index))?;
        self.inner.storage_ref(address, index)
    }
    fn block_hash_ref(&self, number: u64) -> Result<B256, DbErr> {
        self.gate(Key::BlockHash(number))?;
        self.inner.block_hash_ref(number)
    }
}
