//! Independent in-order reference: stock revm over `revm_database::State`, one transaction at a
//! time, skipping transaction-validation errors. Does not use grevm's sequential path or
//! `grevm::test_utils`.

use crate::compare::{CanonDelta, Readback, canon_delta, readback};
use alloy_evm::precompiles::PrecompilesMap;
use grevm::{DynParallelPrecompile, TxExecutionOutcome};
use revm::{
    Context, Database, DatabaseCommit, DatabaseRef, InspectEvm, MainBuilder, MainContext,
    database_interface::bal::EvmDatabaseError,
    precompile::{PrecompileSpecId, Precompiles},
};
use revm_context::{BlockEnv, CfgEnv, TxEnv, result::EVMError};
use revm_database::{BundleState, State, StateBuilder, states::bundle_state::BundleRetention};
use revm_inspector::{Inspector, NoOpInspector};
use revm_primitives::{Address, B256, U256};

#[derive(Clone, Debug)]
pub struct RefRun {
    pub outcomes: Vec<TxExecutionOutcome>,
    /// Canonical delta per completed step (`None` for a skipped transaction).
    pub deltas: Vec<Option<CanonDelta>>,
    /// `(failing index, error signature)` if in-order execution met a fatal error.
    pub error: Option<(usize, String)>,
    pub bundle: BundleState,
    pub readback: Readback,
    /// Database keys each completed step semantically accessed (accounts / slots / code loaded by
    /// its journal), for judging where a transient fault may legitimately surface.
    pub loaded: Vec<std::collections::BTreeSet<crate::db::Key>>,
}

pub fn err_sig<E: std::fmt::Display>(e: &EVMError<E>) -> String {
    match e {
        EVMError::Transaction(t) => format!("Transaction:{t:?}"),
        EVMError::Header(h) => format!("Header:{h:?}"),
        EVMError::Database(d) => format!("Database:{d}"),
        EVMError::Custom(s) => format!("Custom:{s}"),
        EVMError::CustomAny(a) => format!("CustomAny:{a}"),
    }
}

fn unwrap_db<E>(e: EVMError<EvmDatabaseError<E>>) -> EVMError<E> {
    match e {
        EVMError::Transaction(t) => EVMError::Transaction(t),
        EVMError::Header(h) => EVMError::Header(h),
        EVMError::Database(EvmDatabaseError::Database(d)) => EVMError::Database(d),
        EVMError::Database(EvmDatabaseError::Bal(b)) => EVMError::Custom(format!("bal: {b}")),
        EVMError::Custom(s) => EVMError::Custom(s),
        EVMError::CustomAny(a) => EVMError::CustomAny(a),
    }
}

pub type RefCtx<DB> =
    Context<BlockEnv, TxEnv, CfgEnv, State<revm::database_interface::WrapDatabaseRef<DB>>>;

pub struct RefOptions<'a> {
    pub preload_beneficiary: bool,
    pub with_reverts: bool,
    pub precompiles: &'a [(Address, DynParallelPrecompile)],
    /// Precompiles written directly against Alloy's unrestricted interface (no grevm facade or
    /// adapter involved): an independent statement of what the facade-based ones must do.
    pub raw_precompiles: &'a [(Address, alloy_evm::precompiles::DynPrecompile)],
    pub probe_addrs: &'a [Address],
    pub probe_slots: &'a [U256],
    /// Called after the run with faults to be disarmed before read-back.
    pub before_readback: &'a dyn Fn(),
    /// Called before each transaction with its index.
    pub on_tx: &'a dyn Fn(usize),
}

/// Run the block in order on stock revm with an optional inspector factory.
pub fn run_reference<DB, I>(
    db: DB,
    cfg: &CfgEnv,
    block: &BlockEnv,
    txs: &[TxEnv],
    opts: &RefOptions<'_>,
    inspector: I,
) -> (RefRun, I)
where
    DB: DatabaseRef + std::fmt::Debug,
    DB::Error: Send + Sync + std::fmt::Display + std::fmt::Debug + 'static,
    I: Inspector<RefCtx<DB>>,
{
    let mut state: State<_> = StateBuilder::new().with_bundle_update().with_database_ref(db).build();
    let mut outcomes = Vec::new();
    let mut deltas = Vec::new();
    let mut loaded = Vec::new();
    let mut error = None;

    if opts.preload_beneficiary {
        if let Err(e) = state.basic(block.beneficiary) {
            error = Some((
                0,
                match e {
                    EvmDatabaseError::Database(d) => format!("Database:{d}"),
                    EvmDatabaseError::Bal(b) => format!("Custom:bal: {b}"),
                },
            ));
        }
    }
    let spec = cfg.spec;
    let mut evm = Context::mainnet()
        .with_db(state)
        .with_cfg(cfg.clone())
        .with_block(block.clone())
        .build_mainnet_with_inspector(inspector)
        .with_precompiles(PrecompilesMap::from_static(Precompiles::new(
            PrecompileSpecId::from_spec_id(spec),
        )));
    for (address, precompile) in opts.precompiles {
        let p = precompile.to_alloy();
        evm.precompiles.apply_precompile(address, move |_| Some(p));
    }
    for (address, precompile) in opts.raw_precompiles {
        let p = precompile.clone();
        evm.precompiles.apply_precompile(address, move |_| Some(p));
    }
    if error.is_none() {
        for (i, tx) in txs.iter().enumerate() {
            (opts.on_tx)(i);
            match evm.inspect_tx(tx.clone()) {
                Ok(ras) => {
                    let mut keys = std::collections::BTreeSet::new();
                    for (a, acc) in ras.state.iter() {
                        keys.insert(crate::db::Key::Basic(*a));
                        // code counts as accessed only if the journal actually loaded it
                        if acc.info.code.is_some() && !acc.info.is_empty_code_hash() {
                            keys.insert(crate::db::Key::Code(acc.info.code_hash));
                        }
                        for slot in acc.storage.keys() {
                            keys.insert(crate::db::Key::Storage(*a, *slot));
                        }
                    }
                    loaded.push(keys);
                    deltas.push(Some(canon_delta(&ras.state)));
                    evm.ctx.journaled_state.database.commit(ras.state);
                    outcomes.push(TxExecutionOutcome::Executed(ras.result));
                }
                Err(e) => match unwrap_db(e) {
                    EVMError::Transaction(t) => {
                        outcomes.push(TxExecutionOutcome::Skipped(t));
                        deltas.push(None);
                        loaded.push([crate::db::Key::Basic(tx.caller)].into_iter().collect());
                    }
                    other => {
                        error = Some((i, err_sig(&other)));
                        break;
                    }
                },
            }
        }
    }
    let inspector = evm.inspector;
    let mut state = evm.ctx.journaled_state.database;
    (opts.before_readback)();
    state.merge_transitions(if opts.with_reverts { BundleRetention::Reverts } else { BundleRetention::PlainState });
    let bundle = state.take_bundle();
    let rb = readback(&mut StateMut(&mut state), opts.probe_addrs, opts.probe_slots);
    (RefRun { outcomes, deltas, error, bundle, readback: rb, loaded }, inspector)
}

/// `State`'s error is wrapped; expose it with a flat `Display` error.
struct StateMut<'a, DB>(&'a mut State<DB>);

impl<DB: Database> Database for StateMut<'_, DB>
where
    DB::Error: std::fmt::Display + std::fmt::Debug + Send + Sync + 'static,
{
    type Error = crate::db::DbErr;
    fn basic(&mut self, a: Address) -> Result<Option<revm_state::AccountInfo>, Self::Error> {
        self.0.basic(a).map_err(flat)
    }
    fn code_by_hash(&mut self, h: B256) -> Result<revm_state::Bytecode, Self::Error> {
        self.0.code_by_hash(h).map_err(flat)
    }
    fn storage(&mut self, a: Address, i: U256) -> Result<U256, Self::Error> {
        Database::storage(self.0, a, i).map_err(flat)
    }
    fn block_hash(&mut self, n: u64) -> Result<B256, Self::Error> {
        self.0.block_hash(n).map_err(flat)
    }
}

fn flat<E: std::fmt::Display>(e: EvmDatabaseError<E>) -> crate::db::DbErr {
    match e {
        EvmDatabaseError::Database(d) => crate::db::DbErr(d.to_string()),
        EvmDatabaseError::Bal(b) => crate::db::DbErr(format!("bal: {b}")),
    }
}

pub fn run_plain<DB>(
    db: DB,
    cfg: &CfgEnv,
    block: &BlockEnv,
    txs: &[TxEnv],
    opts: &RefOptions<'_>,
) -> RefRun
where
    DB: DatabaseRef + std::fmt::Debug,
    DB::Error: Send + Sync + std::fmt::Display + std::fmt::Debug + 'static,
{
    run_reference(db, cfg, block, txs, opts, NoOpInspector {}).0
}
