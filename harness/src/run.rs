//! Run one case through the real grevm scheduler under a perturbation profile and fault plan,
//! with a watchdog that diagnoses stable stalls.

use crate::{
    compare::{Readback, readback},
    db::{FaultDb, FaultPlan, IN_DB_DELAY},
    obs::{Profile, Rec, obs},
    reference::err_sig,
    world::Case,
};
use grevm::{
    DelegatedSafetyConfig, DynParallelPrecompile, GrevmConfig, ParallelState, ParallelTakeBundle,
    Scheduler, TxExecutionOutcome, verif::api::SchedulerDump,
};
use revm_context::CfgEnv;
use revm_database::{BundleState, states::bundle_state::BundleRetention};
use revm_primitives::{Address, U256};
use std::{
    panic::AssertUnwindSafe,
    sync::{
        Arc,
        atomic::{AtomicBool, Ordering},
    },
    time::{Duration, Instant},
};

#[derive(Clone, Copy, Debug, PartialEq, Eq)]
pub enum Entry {
    Execute,
    ParallelExecute(usize),
    FallbackSequential,
}

#[derive(Clone, Debug)]
pub struct RunCfg {
    pub workers: usize,
    pub min_parallel_txs: usize,
    pub force_sequential: bool,
    pub entry: Entry,
    pub safety: DelegatedSafetyConfig,
    pub with_reverts: bool,
    pub profile: Profile,
    pub seed: u64,
}

impl RunCfg {
    pub fn describe(&self) -> String {
        format!(
            "workers={} min_parallel={} force_seq={} entry={:?} safety=({},{}) reverts={} profile={}",
            self.workers,
            self.min_parallel_txs,
            self.force_sequential,
            self.entry,
            self.safety.forbid_delegated_create,
            self.safety.reserve_delegated_balance,
            self.with_reverts,
            self.profile.name
        )
    }
    /// Whether the configuration selects grevm's sequential path for a block of `n` transactions.
    pub fn sequential_for(&self, n: usize) -> bool {
        self.force_sequential || n < self.min_parallel_txs || self.entry == Entry::FallbackSequential
    }
}

#[derive(Clone, Debug)]
pub struct StallReport {
    pub class: String,
    pub owner: &'static str,
    pub detail: String,
}

pub struct RunOut {
    /// `Ok` or `(txid, error signature)`.
    pub result: Result<(), (usize, String)>,
    pub outcomes: Vec<TxExecutionOutcome>,
    pub bundle: BundleState,
    pub readback: Readback,
    pub trace: Vec<Rec>,
    pub stall: Option<StallReport>,
    /// Inconclusive watchdog expiry (no stable stall diagnosed).
    pub inconclusive: Option<String>,
    pub panic: Option<String>,
    pub wall: Duration,
    pub touched: std::collections::BTreeMap<crate::db::Key, u32>,
    pub faults_fired: u64,
    pub holds: u64,
    pub hold_hits: u64,
    pub delays: u64,
}

pub fn cfg_env(case: &Case) -> CfgEnv {
    let mut cfg = CfgEnv::new_with_spec(case.spec);
    cfg.disable_nonce_check = case.disable_nonce_check;
    cfg
}

pub fn probe_addrs(case: &Case) -> Vec<Address> {
    let mut v: Vec<Address> = (0..case.layout.table).map(crate::world::table_addr).collect();
    v.extend(case.create2_addrs.iter().copied());
    v
}

pub fn probe_slots(case: &Case) -> Vec<U256> {
    (0..case.slots + 1).map(U256::from).collect()
}

fn classify_stall(dump: &SchedulerDump, n: usize) -> StallReport {
    let o = obs();
    let fin_parked = o.parked[2].load(Ordering::Relaxed) > 0;
    let com_parked = o.parked[3].load(Ordering::Relaxed) > 0;
    let detail = format!(
        "validation_idx={} finality_idx={} committed_idx={} frontier={} dep_index={} aborted={} finality_parked={} commit_parked={} txs={:?} dependents={:?} affects={:?} lower_ts={:?} unconfirmed_ts={:?}",
        dump.validation_idx,
        dump.finality_idx,
        dump.committed_idx,
        dump.execution_frontier,
        dump.dep_index,
        dump.aborted,
        fin_parked,
        com_parked,
        dump.txs.iter().map(|t| (t.status, t.incarnation)).collect::<Vec<_>>(),
        dump.dependents,
        dump.affects,
        dump.lower_ts,
        dump.unconfirmed_ts
    );
    // Lost notification: a coordinator is parked although its condition already holds.
    if dump.aborted && (fin_parked || com_parked) {
        return StallReport { class: "lost notification (abort not delivered to a parked coordinator)".into(), owner: "C17", detail };
    }
    if com_parked && dump.committed_idx < dump.finality_idx {
        return StallReport { class: "lost notification (commit parked behind published finality)".into(), owner: "C17", detail };
    }
    let f = dump.finality_idx;
    if f < n {
        let cand = &dump.txs[f];
        let dep = dump.dependents.get(f).cloned().flatten();
        match cand.status {
            Some(4) => {
                let lower = dump.lower_ts[..=f].iter().copied().max().unwrap_or(0);
                if f < dump.validation_idx && dump.unconfirmed_ts[f] > lower {
                    return StallReport {
                        class: format!("lost notification (finality candidate {f} is eligible but the finality thread does not advance)"),
                        owner: "C17",
                        detail,
                    };
                }
                return StallReport {
                    class: format!("validation lost by a rewind (candidate {f} unconfirmed, validation_idx {}, its timestamp {} vs rewind {}; nobody will revalidate)", dump.validation_idx, dump.unconfirmed_ts[f], lower),
                    owner: "C15",
                    detail,
                };
            }
            Some(2) => {
                return StallReport {
                    class: format!("pending validation never offered (tx {f} executed, validation_idx {}, frontier {}, dep_index {})", dump.validation_idx, dump.execution_frontier, dump.dep_index),
                    owner: "C15",
                    detail,
                };
            }
            Some(0) | Some(5) => {
                return StallReport {
                    class: format!("stranded transaction {f} (status {:?}, dependency state {dep:?}, execution cursor {})", cand.status, dump.dep_index),
                    owner: "C16",
                    detail,
                };
            }
            _ => {}
        }
    }
    StallReport { class: "unclassified stall".into(), owner: "C05", detail }
}

/// One liveness sample over the scheduler threads of the current run: `(live threads, all of them
/// provably idle and scheduled)`. Idle = parked in the wait slot (coordinators) or spinning in
/// `next()` with the thread's own loop counter advancing since the previous sample (workers).
fn idle_sample(o: &crate::obs::Obs, last: &mut [u64]) -> (u32, bool) {
    let mut live = 0u32;
    let mut all_idle = true;
    for (k, slot) in o.tslots.iter().enumerate() {
        let role = slot.role.load(Ordering::Relaxed);
        let spins = slot.spins.load(Ordering::Relaxed);
        if role != 0 {
            live += 1;
            let parked = slot.parked.load(Ordering::Relaxed);
            let spinning = role == 1 && spins >= last[k] + 2;
            if !(parked || spinning) {
                all_idle = false;
            }
        }
        last[k] = spins;
    }
    (live, all_idle)
}

/// Execute `case` on grevm. Never panics: panics of the scheduler are caught and reported.
pub fn run_grevm(
    case: &Case,
    rc: &RunCfg,
    plan: &FaultPlan,
    precompiles: Option<Arc<Vec<(Address, DynParallelPrecompile)>>>,
) -> RunOut {
    let o = obs();
    let db = Arc::new(FaultDb::new(case.db.clone(), plan.clone()));
    let state = ParallelState::new(db.clone(), true, false);
    let config = GrevmConfig {
        concurrency_level: rc.workers,
        force_sequential: rc.force_sequential,
        min_parallel_txs: rc.min_parallel_txs,
        delegated_safety: rc.safety,
    };
    let scheduler = Scheduler::new_with_runtime_config(
        cfg_env(case),
        case.block.clone(),
        case.txs.clone(),
        state,
        precompiles,
        config,
    );
    let n = case.txs.len();
    let done = AtomicBool::new(false);
    let mut stall = None;
    let mut inconclusive = None;
    let start = Instant::now();
    o.begin_run(&rc.profile, rc.seed);
    let joined = std::thread::scope(|scope| {
        let handle = scope.spawn(|| {
            let r = std::panic::catch_unwind(AssertUnwindSafe(|| match rc.entry {
                Entry::Execute => scheduler.execute(),
                Entry::ParallelExecute(k) => scheduler.parallel_execute(Some(k)),
                Entry::FallbackSequential => scheduler.fallback_sequential(),
            }));
            done.store(true, Ordering::SeqCst);
            r
        });
        // ---- watchdog ---------------------------------------------------------------------------
        let soft = Duration::from_millis(if cfg!(miri) { 600_000 } else { 1500 });
        let hard = Duration::from_secs(if cfg!(miri) { 3600 } else { 90 });
        let mut last_seq = 0u64;
        let mut last_slot_spins = vec![0u64; o.tslots.len()];
        let expected_workers = match rc.entry {
            Entry::ParallelExecute(k) => k as u64,
            _ => rc.workers as u64,
        };
        let mut stable = 0u32;
        let mut unchanged = 0u32;
        let mut cancelled = false;
        let mut release_attempts = 0u32;
        let mut marks_seen = 0u64;
        let mut begins_at_mark = 0u64;
        while !done.load(Ordering::SeqCst) {
            if start.elapsed() < soft {
                std::thread::sleep(Duration::from_micros(200));
                continue;
            }
            // ---- livelock cut-off (logical): thousands of execution attempts per transaction
            // without a single finality or commit step. Not a verdict by itself - the run is only
            // wound down so that the trace monitors (HEAD, VER, TS) can judge what happened; if
            // they find nothing the run is reported INCONCLUSIVE.
            if !cancelled {
                let marks = o.progress_marks.load(Ordering::Relaxed);
                let begins = o.exec_begins.load(Ordering::Relaxed);
                if marks != marks_seen {
                    marks_seen = marks;
                    begins_at_mark = begins;
                } else if begins.saturating_sub(begins_at_mark) > 400 * (n as u64 + 4) {
                    inconclusive = Some(format!(
                        "livelock suspected: {} execution attempts since the last finality/commit step of a {n}-transaction block; run cancelled",
                        begins - begins_at_mark
                    ));
                    scheduler.verif_cancel();
                    cancelled = true;
                }
            }
            std::thread::sleep(Duration::from_millis(300));
            if done.load(Ordering::SeqCst) {
                break;
            }
            let seq = o.seq_now();
            let busy = o.in_delay.load(Ordering::Relaxed) > 0 ||
                IN_DB_DELAY.load(Ordering::SeqCst) > 0 ||
                o.in_exec.load(Ordering::Relaxed) > 0;
            // Quiescent = every scheduler thread this run is going to have has started, and every
            // one still alive is provably idle *and scheduled*: parked in its wait slot, or
            // spinning in `next()` with its own loop counter advancing between two samples. A
            // thread that is merely runnable but not running (a loaded machine can leave a freshly
            // spawned or pre-empted thread unscheduled for seconds) is neither, so such a sample
            // never counts towards a stall.
            let all_started = o.started[2].load(Ordering::Relaxed) >= 1 &&
                o.started[3].load(Ordering::Relaxed) >= 1 &&
                o.started[1].load(Ordering::Relaxed) >= expected_workers;
            let (live, all_idle) = idle_sample(o, &mut last_slot_spins);
            let quiescent = all_started && live > 0 && all_idle;
            if seq == last_seq && !busy && !cancelled {
                unchanged += 1;
            } else {
                unchanged = 0;
            }
            if seq == last_seq && !busy && quiescent && !cancelled {
                stable += 1;
            } else {
                stable = 0;
            }
            last_seq = seq;
            if stable >= 3 && !cancelled {
                // confirmation: a real stall is still there, unchanged, much later. A coordinator
                // that was unparked but has not been scheduled yet still counts as parked, so the
                // wait is measured in scheduling canaries rather than in time alone: three times a
                // fresh thread (made runnable after whatever woke the coordinator) must have run.
                // If a notify() that found the registered thread was issued to a parked coordinator
                // after it entered park, that coordinator *will* wake up unless notify() itself is
                // broken: what looks like a stall is then almost certainly scheduling latency (a
                // woken thread sitting on a starved CPU was seen to wait for seconds on this VM),
                // so the confirmation is ten times longer.
                let woken = (2..4).any(|role| o.parked[role].load(Ordering::Relaxed) > 0 && o.notified_since_park[role].load(Ordering::Relaxed));
                let rounds = if woken { 40 } else { 3 };
                let mut confirmed = true;
                for _ in 0..rounds {
                    std::thread::scope(|cs| {
                        cs.spawn(|| std::hint::black_box(()));
                    });
                    std::thread::sleep(Duration::from_millis(500));
                    let (live2, idle2) = idle_sample(o, &mut last_slot_spins);
                    if done.load(Ordering::SeqCst) || o.seq_now() != seq || live2 == 0 || !idle2 {
                        confirmed = false;
                        break;
                    }
                }
                if !confirmed {
                    stable = 0;
                    continue;
                }
                let dump = scheduler.verif_dump();
                stall = Some(classify_stall(&dump, n));
                scheduler.verif_cancel();
                cancelled = true;
            }
            if start.elapsed() > hard && !cancelled {
                let dump = scheduler.verif_dump();
                if unchanged >= 200 {
                    // not a single event for a minute although nobody is inside an injected delay, a
                    // database call or an execution, and the threads are neither parked nor
                    // spinning: they block each other (lock cycle) - scheduling noise cannot
                    // account for a minute
                    let mut rep = classify_stall(&dump, n);
                    rep.class = format!("hang: scheduler threads blocked outside their wait slots for a minute ({})", rep.class);
                    rep.owner = "C05";
                    stall = Some(rep);
                } else {
                    inconclusive = Some(format!("hard watchdog expired after {:?} without a stable state", start.elapsed()));
                }
                scheduler.verif_cancel();
                cancelled = true;
            }
            if cancelled && release_attempts < 20 {
                // keep releasing: directly, not through cancel() (which may be what is broken)
                scheduler.verif_force_release();
                release_attempts += 1;
            }
            if start.elapsed() > hard * 2 {
                // The run cannot be wound down. If a stable stall was diagnosed, that diagnosis is
                // the verdict and must not be lost with the shard: hand it to the orchestrator.
                if let Some(st) = &stall {
                    crate::orchestrate::emergency_finding(
                        st.owner,
                        "STALL",
                        &format!(
                            "execution does not make progress without the stall timer and could not even be cancelled: {}; {}",
                            st.class, st.detail
                        ),
                        &serde_json::json!({"case": case.summary(), "config": rc.describe(), "faults": plan.describe()}),
                    );
                    std::process::exit(4);
                }
                eprintln!("INCONCLUSIVE run did not finish after cancel; aborting shard");
                std::process::exit(3);
            }
        }
        handle.join()
    });
    let wall = start.elapsed();
    let trace = o.end_run();
    let holds = o.holds.load(Ordering::Relaxed);
    let hold_hits = o.hold_hits.load(Ordering::Relaxed);
    let delays = o.delays.load(Ordering::Relaxed);
    let mut panic = None;
    let result = match joined {
        Ok(Ok(Ok(()))) => Ok(()),
        Ok(Ok(Err(e))) => Err((e.txid, err_sig(&e.error))),
        Ok(Err(p)) | Err(p) => {
            let msg = if let Some(s) = p.downcast_ref::<String>() {
                s.clone()
            } else if let Some(s) = p.downcast_ref::<&str>() {
                (*s).to_string()
            } else {
                "non-string panic payload".to_string()
            };
            panic = Some(msg.clone());
            Err((usize::MAX, format!("Panic:{msg}")))
        }
    };
    db.disarm();
    let touched = db.touched();
    let faults_fired = db.faults_fired.load(Ordering::SeqCst);
    let (outcomes, mut state) = scheduler.take_result_and_state();
    let bundle = state.parallel_take_bundle(if rc.with_reverts {
        BundleRetention::Reverts
    } else {
        BundleRetention::PlainState
    });
    let rb = readback(&mut state, &probe_addrs(case), &probe_slots(case));
    RunOut {
        result,
        outcomes,
        bundle,
        readback: rb,
        trace,
        stall,
        inconclusive,
        panic,
        wall,
        touched,
        faults_fired,
        holds,
        hold_hits,
        delays,
    }
}
