//! Per-property campaign definitions (workload families, perturbation weights).

use crate::{
    campaign::{Family, ProfileWeights, SchedCampaign},
    obs::{self, Class},
    progs::Mix,
    world::{ALL_SPECS, BenRole, GenParams, MODERN_SPECS, PRAGUE_SPECS},
};

fn hot_mix() -> Mix {
    // few slots, many loads/stores, data-dependent keys: late-discovered dependencies
    Mix { sload: 14, sstore: 14, call: 4, slots: 3, len: (4, 12), ..Mix::default() }
}

fn conflict_family(name: &'static str) -> GenParams {
    GenParams {
        family: name,
        txs: (4, 14),
        n_eoa: 5,
        n_con: 2,
        mix: hot_mix(),
        kind_w: [14, 1, 0, 1],
        ..GenParams::default()
    }
}

fn mixed_family() -> GenParams {
    GenParams {
        family: "mixed",
        specs: ALL_SPECS,
        txs: (3, 24),
        n_eoa: 6,
        n_con: 4,
        mix: Mix { selfdestruct: 1, create: 2, ..Mix::default() },
        invalid_pct: 6,
        auth_pct: 15,
        pre_delegated: 1,
        ben_roles: &[BenRole::PlainEoa, BenRole::Absent, BenRole::Sender, BenRole::Contract],
        poor_senders: 1,
        ..GenParams::default()
    }
}

fn transfer_family() -> GenParams {
    GenParams {
        family: "transfers",
        txs: (4, 40),
        n_eoa: 4,
        n_con: 1,
        kind_w: [1, 12, 0, 1],
        hot_sender_pct: 50,
        ..GenParams::default()
    }
}

pub fn c01() -> SchedCampaign {
    SchedCampaign {
        prop: "C01",
        families: vec![
            Family { weight: 6, params: conflict_family("hot-slots") },
            Family { weight: 4, params: mixed_family() },
            Family { weight: 1, params: transfer_family() },
        ],
        profiles: ProfileWeights::default(),
        seq_pct: 8,
    }
}

pub fn c02() -> SchedCampaign {
    SchedCampaign {
        prop: "C02",
        families: vec![
            Family { weight: 8, params: conflict_family("hot-slots") },
            Family {
                weight: 3,
                params: GenParams {
                    family: "hot-slots-deep",
                    txs: (8, 20),
                    n_con: 1,
                    mix: Mix { sload: 16, sstore: 16, call: 2, slots: 2, len: (5, 10), ..Mix::default() },
                    kind_w: [16, 0, 0, 0],
                    ..GenParams::default()
                },
            },
            Family { weight: 2, params: mixed_family() },
        ],
        profiles: ProfileWeights {
            quiet: 1,
            light: 1,
            chaos: 2,
            focus: 8,
            director: 10,
            focus_classes: &[
                Class::ClaimLock,
                Class::ValidateScan,
                Class::ExecPublish,
                Class::EstimateRewind,
                Class::Finality,
                Class::Commit,
            ],
            directors: obs::D_CLAIM_LOCK | obs::D_VALIDATE_SCAN | obs::D_EXEC_PUBLISH | obs::D_COORD,
        },
        seq_pct: 2,
    }
}

pub fn by_name(prop: &str) -> Option<SchedCampaign> {
    match prop {
        "C01" => Some(c01()),
        "C02" => Some(c02()),
        _ => None,
    }
}

#[allow(dead_code)]
pub fn unused() -> (&'static [revm_primitives::hardfork::SpecId], &'static [revm_primitives::hardfork::SpecId]) {
    (MODERN_SPECS, PRAGUE_SPECS)
}
