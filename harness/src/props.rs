//! Per-property campaign definitions (workload families, perturbation weights).

use crate::{
    campaign::{Family, ProfileWeights, SchedCampaign},
    obs::{self, Class},
    progs::Mix,
    world::{ALL_SPECS, BenRole, GenParams, MODERN_SPECS, PRAGUE_SPECS},
};

fn hot_mix() -> Mix {
    // few slots, many loads/stores, data-dependent keys: late-discovered dependencies
    Mix { sload: 14, sstore: 14, call: 4, slots: 3, len: (4, 12), ..Mix::default() }
}

fn conflict_family(name: &'static str) -> GenParams {
    GenParams {
        family: name,
        txs: (4, 14),
        n_eoa: 5,
        n_con: 2,
        mix: hot_mix(),
        kind_w: [14, 1, 0, 1],
        ..GenParams::default()
    }
}

fn mixed_family() -> GenParams {
    GenParams {
        family: "mixed",
        specs: ALL_SPECS,
        txs: (3, 24),
        n_eoa: 6,
        n_con: 4,
        mix: Mix { selfdestruct: 1, create: 2, ..Mix::default() },
        invalid_pct: 6,
        auth_pct: 15,
        pre_delegated: 1,
        ben_roles: &[BenRole::PlainEoa, BenRole::Absent, BenRole::Sender, BenRole::Contract],
        poor_senders: 1,
        ..GenParams::default()
    }
}

fn transfer_family() -> GenParams {
    GenParams {
        family: "transfers",
        txs: (4, 40),
        n_eoa: 4,
        n_con: 1,
        kind_w: [1, 12, 0, 1],
        hot_sender_pct: 50,
        ..GenParams::default()
    }
}

fn pointer_family() -> GenParams {
    GenParams {
        family: "pointer",
        txs: (5, 14),
        n_eoa: 6,
        n_con: 1,
        mix: Mix { slots: 12, ..Mix::default() },
        kind_w: [16, 0, 0, 0],
        hot_sender_pct: 10,
        pointer_contract: true,
        low_gas_pct: 0,
        ..GenParams::default()
    }
}

pub fn withdraw_family() -> GenParams {
    GenParams {
        family: "withdraw",
        txs: (4, 10),
        n_eoa: 12,
        n_con: 1,
        mix: Mix { slots: 13, ..Mix::default() },
        kind_w: [16, 0, 0, 0],
        hot_sender_pct: 0,
        withdraw_contract: true,
        low_gas_pct: 0,
        zero_tip_pct: 0,
        basefees: &[7],
        ..GenParams::default()
    }
}

pub fn reborn_family() -> GenParams {
    GenParams {
        family: "reborn",
        specs: crate::world::CREATE2_SPECS,
        txs: (5, 14),
        n_eoa: 6,
        n_con: 1,
        mix: Mix { slots: 8, ..Mix::default() },
        kind_w: [16, 0, 0, 0],
        hot_sender_pct: 10,
        reborn_contract: true,
        low_gas_pct: 0,
        ..GenParams::default()
    }
}

pub fn c01() -> SchedCampaign {
    SchedCampaign {
        prop: "C01",
        families: vec![
            Family { weight: 5, params: conflict_family("hot-slots") },
            Family { weight: 4, params: mixed_family() },
            Family { weight: 3, params: pointer_family() },
            Family { weight: 2, params: reborn_family() },
            Family { weight: 1, params: transfer_family() },
        ],
        profiles: ProfileWeights::default(),
        seq_pct: 8,
    }
}

pub fn c02() -> SchedCampaign {
    SchedCampaign {
        prop: "C02",
        families: vec![
            Family { weight: 6, params: conflict_family("hot-slots") },
            Family { weight: 6, params: pointer_family() },
            // same contract, but half of the transactions come from one sender: a transaction's
            // latest conflicting predecessor is then often its own sender's previous transaction
            // rather than the pointer writer, so it restarts while the pointer is still an estimate
            // (a blocked attempt that publishes a location it never wrote before)
            Family { weight: 4, params: GenParams { family: "pointer-hot-sender", hot_sender_pct: 50, txs: (6, 14), ..pointer_family() } },
            Family { weight: 3, params: withdraw_family() },
            Family {
                weight: 3,
                params: GenParams {
                    family: "hot-slots-deep",
                    txs: (8, 20),
                    n_con: 1,
                    mix: Mix { sload: 16, sstore: 16, call: 2, slots: 2, len: (5, 10), ..Mix::default() },
                    kind_w: [16, 0, 0, 0],
                    ..GenParams::default()
                },
            },
            Family { weight: 2, params: mixed_family() },
            Family {
                weight: 3,
                params: GenParams {
                    family: "hot-slots-coinbase",
                    mix: Mix { coinbase: 8, ..hot_mix() },
                    ben_roles: &[BenRole::PlainEoa, BenRole::Sender, BenRole::Absent],
                    zero_tip_pct: 10,
                    basefees: &[0, 7],
                    ..conflict_family("hot-slots-coinbase")
                },
            },
        ],
        profiles: ProfileWeights {
            quiet: 1,
            light: 1,
            chaos: 2,
            focus: 8,
            director: 10,
            focus_classes: &[
                Class::ClaimLock,
                Class::ValidateScan,
                Class::ExecPublish,
                Class::EstimateRewind,
                Class::Finality,
                Class::Commit,
                Class::Mv,
            ],
            directors: obs::D_CLAIM_LOCK | obs::D_VALIDATE_SCAN | obs::D_EXEC_PUBLISH | obs::D_COORD | obs::D_ESTIMATE_REWIND | obs::D_GATE,
        },
        seq_pct: 2,
    }
}

pub fn c03() -> SchedCampaign {
    let inv = |name: &'static str, pct: u64, off: u64| GenParams {
        family: name,
        specs: ALL_SPECS,
        txs: (3, 16),
        n_eoa: 4,
        n_con: 2,
        mix: Mix { sload: 8, sstore: 8, call: 4, slots: 3, vmax: 1000, ..Mix::default() },
        kind_w: [8, 6, 1, 3],
        invalid_pct: pct,
        auth_pct: 10,
        nonce_check_off_pct: off,
        hot_sender_pct: 55,
        poor_senders: 2,
        low_gas_pct: 5,
        ..GenParams::default()
    };
    SchedCampaign {
        prop: "C03",
        families: vec![
            Family { weight: 4, params: inv("invalid-30", 30, 25) },
            Family { weight: 2, params: inv("invalid-60", 60, 25) },
            Family { weight: 2, params: inv("invalid-10-nonce-off", 10, 100) },
            Family { weight: 2, params: inv("conditional-validity", 0, 0) },
            Family { weight: 1, params: pointer_family() },
            Family {
                weight: 4,
                params: GenParams {
                    family: "foreign-nonce-bumps",
                    specs: PRAGUE_SPECS,
                    n_eoa: 3,
                    auth_pct: 40,
                    pre_delegated: 2,
                    hot_sender_pct: 50,
                    forget_auth_bump_pct: 40,
                    invalid_nonce_bias: true,
                    nonce_check_off_pct: 0,
                    mix: Mix { sload: 8, sstore: 8, call: 6, create: 4, slots: 3, vmax: 1000, ..Mix::default() },
                    ..inv("foreign-nonce-bumps", 20, 0)
                },
            },
        ],
        profiles: ProfileWeights {
            focus_classes: &[Class::ExecStart, Class::Commit, Class::Dep, Class::Abort],
            directors: obs::D_COMMIT_HEAD | obs::D_COORD | obs::D_EXEC_PUBLISH | obs::D_FINISH_AT_HEAD,
            ..ProfileWeights::default()
        },
        seq_pct: 10,
    }
}

pub fn c07() -> SchedCampaign {
    let ben = |name: &'static str, roles: &'static [BenRole]| GenParams {
        family: name,
        specs: ALL_SPECS,
        txs: (3, 16),
        n_eoa: 4,
        n_con: 2,
        mix: Mix { coinbase: 8, balance: 6, call: 6, selfdestruct: 1, sload: 6, sstore: 6, slots: 3, vmax: 5, ..Mix::default() },
        kind_w: [10, 3, 1, 5],
        ben_roles: roles,
        zero_tip_pct: 40,
        basefees: &[0, 7, 7],
        invalid_pct: 3,
        auth_pct: 8,
        ..GenParams::default()
    };
    SchedCampaign {
        prop: "C07",
        families: vec![
            Family { weight: 3, params: ben("ben-eoa-absent", &[BenRole::PlainEoa, BenRole::Absent, BenRole::Empty]) },
            Family { weight: 3, params: ben("ben-sender", &[BenRole::Sender]) },
            Family { weight: 3, params: ben("ben-contract", &[BenRole::Contract]) },
            Family { weight: 2, params: ben("ben-near-overflow", &[BenRole::NearOverflow]) },
            Family { weight: 1, params: pointer_family() },
        ],
        profiles: ProfileWeights {
            focus_classes: &[Class::Mv, Class::ExecPublish, Class::ValidateScan, Class::Commit, Class::EstimateRewind],
            directors: obs::D_EXEC_PUBLISH | obs::D_VALIDATE_SCAN | obs::D_CLAIM_LOCK | obs::D_COMMIT_HEAD | obs::D_ESTIMATE_REWIND,
            ..ProfileWeights::default()
        },
        seq_pct: 8,
    }
}

pub fn c08() -> SchedCampaign {
    let life = |name: &'static str, specs: &'static [revm_primitives::hardfork::SpecId]| GenParams {
        family: name,
        specs,
        txs: (4, 16),
        n_eoa: 4,
        n_con: 3,
        mix: Mix { selfdestruct: 5, create: 6, extcode: 4, balance: 4, sload: 10, sstore: 10, call: 8, slots: 3, vmax: 3, len: (4, 12), ..Mix::default() },
        kind_w: [10, 2, 2, 8],
        ben_roles: &[BenRole::PlainEoa, BenRole::Contract],
        ..GenParams::default()
    };
    SchedCampaign {
        prop: "C08",
        families: vec![
            Family { weight: 5, params: life("lifecycle-all-forks", ALL_SPECS) },
            Family { weight: 3, params: life("lifecycle-modern", MODERN_SPECS) },
            Family {
                weight: 4,
                params: GenParams {
                    family: "destroy-flip",
                    specs: ALL_SPECS,
                    txs: (5, 14),
                    n_eoa: 6,
                    n_con: 2,
                    mix: Mix { extcode: 10, balance: 10, call: 10, sload: 4, sstore: 2, create: 0, selfdestruct: 0, slots: 8, vmax: 1, len: (2, 6), ..Mix::default() },
                    kind_w: [16, 0, 0, 0],
                    hot_sender_pct: 10,
                    destroy_flip_contract: true,
                    low_gas_pct: 0,
                    ..GenParams::default()
                },
            },
            Family { weight: 4, params: reborn_family() },
        ],
        profiles: ProfileWeights {
            focus_classes: &[Class::Mv, Class::ExecPublish, Class::Cache, Class::Commit, Class::ValidateScan],
            directors: obs::D_EXEC_PUBLISH | obs::D_CACHE | obs::D_COMMIT_HEAD | obs::D_VALIDATE_SCAN,
            ..ProfileWeights::default()
        },
        seq_pct: 8,
    }
}

pub fn c09() -> SchedCampaign {
    SchedCampaign {
        prop: "C09",
        families: vec![
            // a retry that swaps written locations without growing its write set (in C09 terms: an
            // authorisation accepted only on retry) - the generic shape of it
            Family { weight: 2, params: pointer_family() },
            Family {
                weight: 6,
                params: GenParams {
                    family: "eip7702",
                    specs: PRAGUE_SPECS,
                    txs: (4, 16),
                    n_eoa: 4,
                    n_con: 3,
                    mix: Mix { extcode: 8, call: 8, delegatecall: 2, sload: 8, sstore: 8, slots: 3, ..Mix::default() },
                    kind_w: [6, 1, 0, 10],
                    auth_pct: 45,
                    pre_delegated: 2,
                    hot_sender_pct: 20,
                    ..GenParams::default()
                },
            },
            Family {
                weight: 3,
                params: GenParams {
                    family: "deployments-known-addresses",
                    specs: ALL_SPECS,
                    txs: (4, 14),
                    n_eoa: 3,
                    n_con: 2,
                    mix: Mix { create: 12, extcode: 8, call: 6, sload: 6, sstore: 6, slots: 3, vmax: 2, ..Mix::default() },
                    kind_w: [8, 1, 5, 10],
                    hot_sender_pct: 40,
                    derived_create_addrs: true,
                    ..GenParams::default()
                },
            },
            Family {
                weight: 3,
                params: GenParams {
                    family: "deployments",
                    specs: ALL_SPECS,
                    txs: (4, 14),
                    n_eoa: 4,
                    n_con: 2,
                    mix: Mix { create: 10, extcode: 8, call: 8, sload: 6, sstore: 6, slots: 3, ..Mix::default() },
                    kind_w: [8, 1, 4, 8],
                    ..GenParams::default()
                },
            },
        ],
        profiles: ProfileWeights {
            focus_classes: &[Class::Mv, Class::ExecPublish, Class::ValidateScan],
            directors: obs::D_EXEC_PUBLISH | obs::D_VALIDATE_SCAN | obs::D_CLAIM_LOCK | obs::D_COMMIT_HEAD,
            ..ProfileWeights::default()
        },
        seq_pct: 8,
    }
}

fn dep_heavy() -> SchedCampaign {
    SchedCampaign {
        prop: "C16",
        families: vec![
            Family { weight: 4, params: withdraw_family() },
            Family {
                weight: 5,
                params: GenParams {
                    family: "chains-and-fan-in",
                    txs: (4, 24),
                    n_eoa: 4,
                    n_con: 1,
                    mix: Mix { sload: 14, sstore: 14, call: 2, slots: 2, len: (4, 10), ..Mix::default() },
                    kind_w: [14, 2, 0, 0],
                    hot_sender_pct: 60,
                    ..GenParams::default()
                },
            },
            Family {
                weight: 4,
                params: GenParams {
                    family: "errors-parked",
                    specs: ALL_SPECS,
                    txs: (4, 20),
                    n_eoa: 4,
                    n_con: 2,
                    mix: Mix { sload: 10, sstore: 10, call: 5, slots: 3, ..Mix::default() },
                    invalid_pct: 25,
                    poor_senders: 2,
                    hot_sender_pct: 50,
                    nonce_check_off_pct: 30,
                    ..GenParams::default()
                },
            },
        ],
        profiles: ProfileWeights {
            quiet: 1,
            light: 2,
            chaos: 3,
            focus: 8,
            director: 6,
            focus_classes: &[Class::Dep, Class::Commit, Class::ExecStart, Class::Abort, Class::ExecPublish, Class::Mv],
            directors: obs::D_COORD | obs::D_COMMIT_HEAD | obs::D_FINISH_AT_HEAD | obs::D_EXEC_PUBLISH | obs::D_GATE,
        },
        seq_pct: 0,
    }
}

fn coord_heavy(prop: &'static str) -> SchedCampaign {
    let mut c = dep_heavy();
    c.prop = prop;
    c.profiles = ProfileWeights {
        quiet: 1,
        light: 2,
        chaos: 3,
        focus: 8,
        director: 8,
        focus_classes: &[Class::Wait, Class::Finality, Class::Commit, Class::Abort, Class::EstimateRewind],
        directors: obs::D_COORD | obs::D_WAIT | obs::D_AFTER_NOTIFY,
    };
    c
}

/// Tiny whole-scheduler blocks for the Miri lane (weak memory, arbitrary pre-emption).
fn tiny_sched(prop: &'static str) -> SchedCampaign {
    SchedCampaign {
        prop,
        families: vec![Family {
            weight: 1,
            params: GenParams {
                family: "tiny",
                specs: &[revm_primitives::hardfork::SpecId::CANCUN],
                txs: (2, 4),
                n_eoa: 3,
                n_con: 1,
                mix: Mix { sload: 10, sstore: 10, call: 0, create: 0, slots: 2, len: (2, 4), ..Mix::default() },
                kind_w: [6, 4, 0, 0],
                hot_sender_pct: 40,
                low_gas_pct: 0,
                ..GenParams::default()
            },
        }],
        profiles: ProfileWeights { quiet: 6, light: 2, chaos: 0, focus: 0, director: 0, focus_classes: &[], directors: 0 },
        seq_pct: 0,
    }
}

/// Campaigns used under Miri: component drivers in the quick tier; tiny whole-scheduler blocks
/// (minutes each under the interpreter) only in the thorough tier.
pub fn miri_by_name(prop: &str, tier: &str) -> Option<Box<dyn crate::campaign::Campaign>> {
    use crate::campaign::Composite;
    use crate::components as comp;
    let thorough = tier == "miri-thorough";
    match prop {
        "C15" => Some(Box::new(comp::C15)),
        "C16" => Some(Box::new(comp::C16)),
        "C17" if thorough => Some(Box::new(Composite { prop: "C17", parts: vec![(9, Box::new(comp::C17)), (1, Box::new(tiny_sched("C17")))] })),
        "C17" => Some(Box::new(comp::C17)),
        "C07" => Some(Box::new(comp::C07History)),
        "C05" if thorough => Some(Box::new(tiny_sched("C05"))),
        "C01" if thorough => Some(Box::new(tiny_sched("C01"))),
        "C02" if thorough => Some(Box::new(tiny_sched("C02"))),
        _ => None,
    }
}

pub fn by_name(prop: &str) -> Option<Box<dyn crate::campaign::Campaign>> {
    use crate::campaign::Composite;
    use crate::components as comp;
    match prop {
        "C06" => Some(Box::new(crate::relations::C06)),
        "C14" => Some(Box::new(crate::relations::C14)),
        "C11" => Some(Box::new(crate::policy::C11)),
        "C12" => Some(Box::new(crate::policy::C12)),
        "C13" => Some(Box::new(crate::policy::C13)),
        "C10" => Some(Box::new(crate::c10::C10)),
        "C15" => Some(Box::new(Composite {
            prop: "C15",
            parts: vec![(8, Box::new(comp::C15)), (2, Box::new(SchedCampaign { prop: "C15", ..c02() }))],
        })),
        "C16" => Some(Box::new(Composite { prop: "C16", parts: vec![(6, Box::new(comp::C16)), (4, Box::new(dep_heavy()))] })),
        "C17" => Some(Box::new(Composite { prop: "C17", parts: vec![(5, Box::new(comp::C17)), (5, Box::new(coord_heavy("C17")))] })),
        "C07" => Some(Box::new(Composite { prop: "C07", parts: vec![(8, Box::new(c07())), (2, Box::new(comp::C07History))] })),
        "C01" => Some(Box::new(c01())),
        "C02" => Some(Box::new(c02())),
        "C03" => Some(Box::new(c03())),
        "C04" => Some(Box::new(crate::campaign::Composite {
            prop: "C04",
            parts: vec![(8, Box::new(crate::faults::C04)), (2, Box::new(crate::policy::C11))],
        })),
        "C05" => Some(Box::new(crate::campaign::Composite {
            prop: "C05",
            parts: vec![(8, Box::new(crate::faults::C05)), (2, Box::new(crate::policy::C05PrecompilePanic))],
        })),
        "C08" => Some(Box::new(c08())),
        "C09" => Some(Box::new(c09())),
        _ => None,
    }
}
