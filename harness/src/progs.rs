//! Random straight-line "register machine" programs compiled to EVM bytecode.
//!
//! Registers r0..r7 live in memory words 0x00..0xe0. On entry r0..r3 are the first four calldata
//! words. Reads and writes depend on register values, i.e. on calldata and on state written by
//! other transactions, which is what makes read/write sets data-dependent. There are no backward
//! jumps, so every frame terminates; recursion through calls is bounded by gas.

use crate::{
    asm::{Asm, op},
    rng::Rng,
};
use revm_primitives::hardfork::SpecId;

pub const NREG: u8 = 8;
/// Numeric base of the address table; table entry i is address `TABLE_BASE + i`.
pub const TABLE_BASE: u64 = 0x1000;
const RET_BUF: u128 = 0x100;
const INIT_BUF: u128 = 0x200;

#[derive(Clone, Copy, Debug, PartialEq, Eq)]
pub enum CallKind {
    Call,
    Static,
    Delegate,
    CallCode,
}

#[derive(Clone, Copy, Debug, PartialEq, Eq)]
pub enum Arith {
    Add,
    Sub,
    Mul,
    Xor,
    And,
    Or,
    Lt,
    Eq,
}

#[derive(Clone, Debug, PartialEq, Eq)]
pub enum Stmt {
    Const(u8, u64),
    Arith(u8, u8, u8, Arith),
    ModK(u8, u8, u64),
    /// r[d] = SLOAD(r[a] mod k)
    SLoad(u8, u8, u64),
    /// SSTORE(r[a] mod k, r[b])
    SStore(u8, u64, u8),
    /// SSTORE(r[a] mod k, r[b] mod m)  (small values: zeroing and equal-value writes happen)
    SStoreSmall(u8, u64, u8, u64),
    /// r[d] = BALANCE(table[r[a] mod t])
    Balance(u8, u8),
    /// r[d] = BALANCE(address(r[a]))  (raw register as address)
    BalanceRaw(u8, u8),
    SelfBalance(u8),
    ExtCodeSize(u8, u8),
    ExtCodeHash(u8, u8),
    /// r[d] = first word of EXTCODECOPY(table[r[a] mod t])
    ExtCodeWord(u8, u8),
    /// call table[r[a] mod t] (or raw register if `raw`), value r[v] mod vmax, args = r0..r3;
    /// r[ds] = success, r[dr] = first return word
    Call { kind: CallKind, a: u8, raw: bool, v: u8, vmax: u64, ds: u8, dr: u8 },
    /// r[d] = address created from init blob `init`; value r[v] mod vmax; CREATE2 salt r[s] mod 2
    Create { two: bool, init: usize, v: u8, vmax: u64, s: u8, d: u8 },
    /// SELFDESTRUCT(table[r[a] mod t])
    SelfDestruct(u8),
    /// SELFDESTRUCT(address(r[a]))
    SelfDestructRaw(u8),
    /// if r[a] == 0 skip the next n statements
    IfZeroSkip(u8, u8),
    /// if r[a] != 0 skip the next n statements
    IfNonZeroSkip(u8, u8),
    Log(u8),
    Return(u8),
    Revert(u8),
    Stop,
    Invalid,
    Coinbase(u8),
    CoinbaseBalance(u8),
    BlockHash(u8, u8),
    Number(u8),
    GasPrice(u8),
    BaseFee(u8),
    Caller(u8),
    Origin(u8),
    Address(u8),
    CallValue(u8),
    TStore(u8, u8),
    TLoad(u8, u8),
}

/// An init-code blob: constructor statements followed by a runtime program.
#[derive(Clone, Debug, PartialEq, Eq)]
pub struct InitBlob {
    pub ctor: Vec<Stmt>,
    pub runtime: Vec<Stmt>,
}

#[derive(Clone, Debug, PartialEq, Eq)]
pub struct Program {
    pub stmts: Vec<Stmt>,
    pub inits: Vec<InitBlob>,
    /// Size of the address table the program was generated for.
    pub table: u64,
}

fn off(r: u8) -> u128 {
    (r as u128) * 0x20
}

struct Gen<'a> {
    a: &'a mut Asm,
    table: u64,
}

impl Gen<'_> {
    fn ld(&mut self, r: u8) {
        self.a.push(off(r)).op(op::MLOAD);
    }
    fn st(&mut self, r: u8) {
        self.a.push(off(r)).op(op::MSTORE);
    }
    /// Leaves `r[a] mod k` on the stack.
    fn ld_mod(&mut self, r: u8, k: u64) {
        self.a.push(k.max(1) as u128);
        self.ld(r);
        self.a.op(op::MOD);
    }
    /// Leaves table address for `r[a]` on the stack.
    fn ld_addr(&mut self, r: u8) {
        self.ld_mod(r, self.table);
        self.a.push(TABLE_BASE as u128).op(op::ADD);
    }

    fn stmts(&mut self, stmts: &[Stmt], init_labels: &[(usize, usize)]) {
        // pending skip labels: (remaining statements, label)
        let mut pending: Vec<(usize, usize)> = Vec::new();
        for s in stmts {
            self.stmt(s, init_labels, &mut pending);
            let mut i = 0;
            while i < pending.len() {
                pending[i].0 -= 1;
                if pending[i].0 == 0 {
                    let l = pending[i].1;
                    self.a.jumpdest(l);
                    pending.remove(i);
                } else {
                    i += 1;
                }
            }
        }
        for (_, l) in pending {
            self.a.jumpdest(l);
        }
    }

    fn stmt(&mut self, s: &Stmt, inits: &[(usize, usize)], pending: &mut Vec<(usize, usize)>) {
        match *s {
            Stmt::Const(d, v) => {
                self.a.push(v as u128);
                self.st(d);
            }
            Stmt::Arith(d, x, y, o) => {
                // binary ops pop a (top) then b: result = a OP b ; we want r[x] OP r[y]
                self.ld(y);
                self.ld(x);
                self.a.op(match o {
                    Arith::Add => op::ADD,
                    Arith::Sub => op::SUB,
                    Arith::Mul => op::MUL,
                    Arith::Xor => op::XOR,
                    Arith::And => op::AND,
                    Arith::Or => op::OR,
                    Arith::Lt => op::LT,
                    Arith::Eq => op::EQ,
                });
                self.st(d);
            }
            Stmt::ModK(d, x, k) => {
                self.ld_mod(x, k);
                self.st(d);
            }
            Stmt::SLoad(d, x, k) => {
                self.ld_mod(x, k);
                self.a.op(op::SLOAD);
                self.st(d);
            }
            Stmt::SStore(x, k, y) => {
                self.ld(y);
                self.ld_mod(x, k);
                self.a.op(op::SSTORE);
            }
            Stmt::SStoreSmall(x, k, y, m) => {
                self.ld_mod(y, m);
                self.ld_mod(x, k);
                self.a.op(op::SSTORE);
            }
            Stmt::Balance(d, x) => {
                self.ld_addr(x);
                self.a.op(op::BALANCE);
                self.st(d);
            }
            Stmt::BalanceRaw(d, x) => {
                self.ld(x);
                self.a.op(op::BALANCE);
                self.st(d);
            }
            Stmt::SelfBalance(d) => {
                self.a.op(op::SELFBALANCE);
                self.st(d);
            }
            Stmt::ExtCodeSize(d, x) => {
                self.ld_addr(x);
                self.a.op(op::EXTCODESIZE);
                self.st(d);
            }
            Stmt::ExtCodeHash(d, x) => {
                self.ld_addr(x);
                self.a.op(op::EXTCODEHASH);
                self.st(d);
            }
            Stmt::ExtCodeWord(d, x) => {
                // zero the buffer, EXTCODECOPY(addr, dest, 0, 32), load it
                self.a.push(0).push(RET_BUF).op(op::MSTORE);
                self.a.push(0x20).push(0).push(RET_BUF);
                self.ld_addr(x);
                self.a.op(op::EXTCODECOPY);
                self.a.push(RET_BUF).op(op::MLOAD);
                self.st(d);
            }
            Stmt::Call { kind, a, raw, v, vmax, ds, dr } => {
                self.a.push(0).push(RET_BUF).op(op::MSTORE);
                // retSize, retOffset, argsSize, argsOffset, [value], addr, gas
                self.a.push(0x20).push(RET_BUF).push(0x80).push(0);
                if matches!(kind, CallKind::Call | CallKind::CallCode) {
                    self.ld_mod(v, vmax);
                }
                if raw {
                    self.ld(a);
                } else {
                    self.ld_addr(a);
                }
                self.a.op(op::GAS);
                self.a.op(match kind {
                    CallKind::Call => op::CALL,
                    CallKind::Static => op::STATICCALL,
                    CallKind::Delegate => op::DELEGATECALL,
                    CallKind::CallCode => op::CALLCODE,
                });
                self.st(ds);
                self.a.push(RET_BUF).op(op::MLOAD);
                self.st(dr);
            }
            Stmt::Create { two, init, v, vmax, s, d } => {
                let (start, end) = inits[init % inits.len().max(1)];
                // size = end - start, computed at assembly time through labels
                // CODECOPY(destOffset, offset, size)
                self.a.push_label(start).push_label(end).op(op::SUB); // size
                self.a.push_label(start).push(INIT_BUF).op(op::CODECOPY);
                if two {
                    self.ld_mod(s, 2);
                }
                self.a.push_label(start).push_label(end).op(op::SUB); // size
                self.a.push(INIT_BUF);
                self.ld_mod(v, vmax);
                self.a.op(if two { op::CREATE2 } else { op::CREATE });
                self.st(d);
            }
            Stmt::SelfDestruct(x) => {
                self.ld_addr(x);
                self.a.op(op::SELFDESTRUCT);
            }
            Stmt::SelfDestructRaw(x) => {
                self.ld(x);
                self.a.op(op::SELFDESTRUCT);
            }
            Stmt::IfZeroSkip(x, n) => {
                let l = self.a.label();
                self.ld(x);
                self.a.op(op::ISZERO).push_label(l).op(op::JUMPI);
                pending.push((n as usize + 1, l));
            }
            Stmt::IfNonZeroSkip(x, n) => {
                let l = self.a.label();
                self.ld(x);
                self.a.push_label(l).op(op::JUMPI);
                pending.push((n as usize + 1, l));
            }
            Stmt::Log(x) => {
                self.ld(x);
                self.a.push(0x20).push(0).op(op::LOG1);
            }
            Stmt::Return(x) => {
                self.a.push(0x20).push(off(x)).op(op::RETURN);
            }
            Stmt::Revert(x) => {
                self.a.push(0x20).push(off(x)).op(op::REVERT);
            }
            Stmt::Stop => {
                self.a.op(op::STOP);
            }
            Stmt::Invalid => {
                self.a.op(op::INVALID);
            }
            Stmt::Coinbase(d) => {
                self.a.op(op::COINBASE);
                self.st(d);
            }
            Stmt::CoinbaseBalance(d) => {
                self.a.op(op::COINBASE).op(op::BALANCE);
                self.st(d);
            }
            Stmt::BlockHash(d, x) => {
                self.ld_mod(x, 4);
                self.a.op(op::BLOCKHASH);
                self.st(d);
            }
            Stmt::Number(d) => {
                self.a.op(op::NUMBER);
                self.st(d);
            }
            Stmt::GasPrice(d) => {
                self.a.op(op::GASPRICE);
                self.st(d);
            }
            Stmt::BaseFee(d) => {
                self.a.op(op::BASEFEE);
                self.st(d);
            }
            Stmt::Caller(d) => {
                self.a.op(op::CALLER);
                self.st(d);
            }
            Stmt::Origin(d) => {
                self.a.op(op::ORIGIN);
                self.st(d);
            }
            Stmt::Address(d) => {
                self.a.op(op::ADDRESS);
                self.st(d);
            }
            Stmt::CallValue(d) => {
                self.a.op(op::CALLVALUE);
                self.st(d);
            }
            Stmt::TStore(x, y) => {
                self.ld(y);
                self.ld_mod(x, 4);
                self.a.op(op::TSTORE);
            }
            Stmt::TLoad(d, x) => {
                self.ld_mod(x, 4);
                self.a.op(op::TLOAD);
                self.st(d);
            }
        }
    }
}

fn prologue(a: &mut Asm) {
    // CALLDATACOPY(destOffset=0, offset=0, size=0x80): r0..r3 = calldata words (zero padded)
    a.push(0x80).push(0).push(0).op(op::CALLDATACOPY);
}

fn epilogue(a: &mut Asm) {
    a.push(0x20).push(0).op(op::RETURN);
}

/// Compile a runtime program (its init blobs are appended as data).
pub fn compile(p: &Program) -> Vec<u8> {
    let mut a = Asm::new();
    let labels: Vec<(usize, usize)> = p.inits.iter().map(|_| (a.label(), a.label())).collect();
    prologue(&mut a);
    {
        let mut g = Gen { a: &mut a, table: p.table };
        g.stmts(&p.stmts, &labels);
    }
    epilogue(&mut a);
    for (blob, (start, end)) in p.inits.iter().zip(labels.iter()) {
        let init = compile_init(blob, p.table);
        a.mark(*start);
        a.raw(&init);
        a.mark(*end);
    }
    a.assemble()
}

/// Compile an init blob: constructor statements, then return the runtime code.
pub fn compile_init(blob: &InitBlob, table: u64) -> Vec<u8> {
    let runtime = compile(&Program { stmts: blob.runtime.clone(), inits: vec![], table });
    let mut a = Asm::new();
    let rt_start = a.label();
    prologue(&mut a);
    {
        let mut g = Gen { a: &mut a, table };
        g.stmts(&blob.ctor, &[]);
    }
    // CODECOPY(0, rt_start, len); RETURN(0, len)
    a.push(runtime.len() as u128).push_label(rt_start).push(0).op(op::CODECOPY);
    a.push(runtime.len() as u128).push(0).op(op::RETURN);
    a.mark(rt_start);
    a.raw(&runtime);
    a.assemble()
}

/// Statement-kind weights for the generator.
#[derive(Clone, Debug)]
pub struct Mix {
    pub arith: u32,
    pub sload: u32,
    pub sstore: u32,
    pub balance: u32,
    pub extcode: u32,
    pub call: u32,
    pub staticcall: u32,
    pub delegatecall: u32,
    pub create: u32,
    pub selfdestruct: u32,
    pub branch: u32,
    pub log: u32,
    pub terminate: u32,
    pub env: u32,
    pub coinbase: u32,
    pub transient: u32,
    /// Number of hot storage slots.
    pub slots: u64,
    /// Call value modulus (1 = always zero value).
    pub vmax: u64,
    pub len: (usize, usize),
}

impl Default for Mix {
    fn default() -> Self {
        Self {
            arith: 8,
            sload: 10,
            sstore: 10,
            balance: 3,
            extcode: 2,
            call: 5,
            staticcall: 1,
            delegatecall: 1,
            create: 1,
            selfdestruct: 0,
            branch: 5,
            log: 1,
            terminate: 1,
            env: 1,
            coinbase: 1,
            transient: 0,
            slots: 4,
            vmax: 3,
            len: (3, 12),
        }
    }
}

fn at_least(spec: SpecId, other: SpecId) -> bool {
    spec.is_enabled_in(other)
}

fn reg(r: &mut Rng) -> u8 {
    r.below(NREG as u64) as u8
}

/// A low register (more likely to hold calldata / meaningful values).
fn lreg(r: &mut Rng) -> u8 {
    r.below(5) as u8
}

pub fn gen_stmt(r: &mut Rng, m: &Mix, spec: SpecId, n_inits: usize, depth_left: usize) -> Stmt {
    let w = [
        m.arith,
        m.sload,
        m.sstore,
        m.balance,
        m.extcode,
        m.call,
        if at_least(spec, SpecId::BYZANTIUM) { m.staticcall } else { 0 },
        if at_least(spec, SpecId::HOMESTEAD) { m.delegatecall } else { 0 },
        if n_inits > 0 { m.create } else { 0 },
        m.selfdestruct,
        if depth_left > 1 { m.branch } else { 0 },
        m.log,
        m.terminate,
        m.env,
        m.coinbase,
        if at_least(spec, SpecId::CANCUN) { m.transient } else { 0 },
    ];
    match r.weighted(&w) {
        0 => match r.below(4) {
            0 => Stmt::Const(reg(r), r.below(6)),
            1 => Stmt::ModK(reg(r), lreg(r), r.range(2, 5)),
            _ => Stmt::Arith(
                reg(r),
                lreg(r),
                reg(r),
                *r.pick(&[
                    Arith::Add,
                    Arith::Add,
                    Arith::Sub,
                    Arith::Mul,
                    Arith::Xor,
                    Arith::And,
                    Arith::Or,
                    Arith::Lt,
                    Arith::Eq,
                ]),
            ),
        },
        1 => Stmt::SLoad(reg(r), lreg(r), m.slots),
        2 => {
            if r.chance(1, 3) {
                Stmt::SStoreSmall(lreg(r), m.slots, reg(r), r.range(2, 3))
            } else {
                Stmt::SStore(lreg(r), m.slots, reg(r))
            }
        }
        3 => match r.below(6) {
            0 if at_least(spec, SpecId::ISTANBUL) => Stmt::SelfBalance(reg(r)),
            1 => Stmt::BalanceRaw(reg(r), reg(r)),
            _ => Stmt::Balance(reg(r), lreg(r)),
        },
        4 => match r.below(3) {
            0 => Stmt::ExtCodeSize(reg(r), lreg(r)),
            1 if at_least(spec, SpecId::PETERSBURG) => Stmt::ExtCodeHash(reg(r), lreg(r)),
            _ => Stmt::ExtCodeWord(reg(r), lreg(r)),
        },
        5 => Stmt::Call {
            kind: if r.chance(1, 12) { CallKind::CallCode } else { CallKind::Call },
            a: lreg(r),
            raw: r.chance(1, 8),
            v: reg(r),
            vmax: m.vmax,
            ds: reg(r),
            dr: reg(r),
        },
        6 => Stmt::Call {
            kind: CallKind::Static,
            a: lreg(r),
            raw: false,
            v: 0,
            vmax: 1,
            ds: reg(r),
            dr: reg(r),
        },
        7 => Stmt::Call {
            kind: CallKind::Delegate,
            a: lreg(r),
            raw: false,
            v: 0,
            vmax: 1,
            ds: reg(r),
            dr: reg(r),
        },
        8 => Stmt::Create {
            two: at_least(spec, SpecId::PETERSBURG) && r.chance(2, 3),
            init: r.usize(n_inits.max(1)),
            v: reg(r),
            vmax: m.vmax,
            s: lreg(r),
            d: reg(r),
        },
        9 => Stmt::SelfDestruct(lreg(r)),
        10 => {
            let n = r.range(1, 3) as u8;
            if r.chance(1, 2) { Stmt::IfZeroSkip(lreg(r), n) } else { Stmt::IfNonZeroSkip(lreg(r), n) }
        }
        11 => Stmt::Log(reg(r)),
        12 => match r.below(6) {
            0 if at_least(spec, SpecId::BYZANTIUM) => Stmt::Revert(reg(r)),
            1 => Stmt::Stop,
            2 => Stmt::Invalid,
            _ => Stmt::Return(reg(r)),
        },
        13 => match r.below(8) {
            0 => Stmt::Number(reg(r)),
            1 => Stmt::GasPrice(reg(r)),
            2 if at_least(spec, SpecId::LONDON) => Stmt::BaseFee(reg(r)),
            3 => Stmt::Caller(reg(r)),
            4 => Stmt::Origin(reg(r)),
            5 => Stmt::Address(reg(r)),
            6 => Stmt::BlockHash(reg(r), lreg(r)),
            _ => Stmt::CallValue(reg(r)),
        },
        14 => {
            if r.chance(1, 2) { Stmt::CoinbaseBalance(reg(r)) } else { Stmt::Coinbase(reg(r)) }
        }
        _ => {
            if r.chance(1, 2) { Stmt::TStore(lreg(r), reg(r)) } else { Stmt::TLoad(reg(r), lreg(r)) }
        }
    }
}

pub fn gen_stmts(r: &mut Rng, m: &Mix, spec: SpecId, n_inits: usize) -> Vec<Stmt> {
    let n = r.range(m.len.0 as u64, m.len.1 as u64) as usize;
    let mut out = Vec::with_capacity(n + 2);
    for i in 0..n {
        let s = gen_stmt(r, m, spec, n_inits, n - i);
        if matches!(s, Stmt::SelfDestruct(_)) {
            if r.chance(1, 2) {
                // state-dependent: destroy only when a hot slot is 0 mod k, so a re-execution on
                // fresh state can flip between "writes slots" and "destroys"
                out.push(Stmt::SLoad(7, lreg(r), m.slots));
                out.push(Stmt::ModK(7, 7, r.range(2, 3)));
            } else {
                // calldata-dependent
                out.push(Stmt::ModK(7, lreg(r), r.range(2, 5)));
            }
            out.push(Stmt::IfNonZeroSkip(7, 1));
        } else if matches!(s, Stmt::Create { .. }) && r.chance(1, 3) {
            out.push(Stmt::SLoad(7, lreg(r), m.slots));
            out.push(Stmt::ModK(7, 7, 2));
            out.push(Stmt::IfNonZeroSkip(7, 1));
        }
        out.push(s);
    }
    out
}

/// A random child (created-contract) blob: small constructor that writes storage, small runtime.
pub fn gen_init(r: &mut Rng, m: &Mix, spec: SpecId) -> InitBlob {
    let mut cm = m.clone();
    cm.create = 0;
    cm.len = (0, 4);
    cm.terminate = 0;
    let mut ctor = gen_stmts(r, &cm, spec, 0);
    if r.chance(2, 3) {
        ctor.push(Stmt::Const(5, r.range(1, 9)));
        ctor.push(Stmt::SStore(4, m.slots, 5));
    }
    let mut rm = m.clone();
    rm.create = 0;
    rm.len = (2, 6);
    let runtime = gen_stmts(r, &rm, spec, 0);
    InitBlob { ctor, runtime }
}

pub fn gen_program(r: &mut Rng, m: &Mix, spec: SpecId, table: u64) -> Program {
    let n_inits = if m.create > 0 { r.range(1, 2) as usize } else { 0 };
    let inits: Vec<InitBlob> = (0..n_inits).map(|_| gen_init(r, m, spec)).collect();
    let stmts = gen_stmts(r, m, spec, n_inits);
    Program { stmts, inits, table }
}
