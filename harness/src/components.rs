//! Component-level monitors driving the *production* cursors, dependency graph, wait slot and
//! beneficiary history through `grevm::verif::api` (thin wrappers that call the real functions).
//! Histories are recorded at the client boundary (stamp before the call, stamp after the return)
//! and checked offline. The same code runs natively (real threads) and under Miri (weak memory,
//! arbitrary pre-emption, data-race detection).

use crate::{
    campaign::{Campaign, Finding, ShardReport},
    obs::{self, Profile, obs},
    rng::{Fnv, Rng},
};
use grevm::verif::api::{Cursors, Deps, History, RawCursor, Slot};
use parking_lot::Mutex;
use revm_primitives::{Address, U256};
use revm_state::AccountInfo;
use std::{
    collections::{BTreeMap, HashMap, HashSet},
    sync::atomic::{AtomicBool, AtomicU64, AtomicUsize, Ordering},
    time::{Duration, Instant},
};

/// Client-boundary stamps. Natively SeqCst (real-time order between non-overlapping calls);
/// under Miri relaxed, so the stamps add no synchronisation that could hide a weak-memory
/// behaviour (they are then only consistent with happens-before).
pub struct Clock(AtomicU64);

impl Clock {
    pub fn new() -> Self {
        Clock(AtomicU64::new(1))
    }
    pub fn tick(&self) -> u64 {
        self.0.fetch_add(1, if cfg!(miri) { Ordering::Relaxed } else { Ordering::SeqCst })
    }
}

fn jitter(r: &mut Rng) {
    match r.below(6) {
        0 => std::thread::yield_now(),
        1 => {
            for _ in 0..r.below(if cfg!(miri) { 4 } else { 200 }) {
                std::hint::spin_loop();
            }
        }
        _ => {}
    }
}

fn finding(prop: &str, monitor: &str, message: String, iter_seed: u64, history: Vec<String>) -> Finding {
    Finding {
        property: prop.to_string(),
        monitor: monitor.to_string(),
        owner: prop.to_string(),
        signature: format!("{monitor}:general"),
        message: message.clone(),
        replay: serde_json::json!({
            "property": prop, "monitor": monitor, "message": message, "iter_seed": iter_seed, "history": history,
        }),
    }
}

fn component_profile(r: &mut Rng, classes: &[obs::Class], directors: u32) -> Profile {
    match r.below(5) {
        0 => Profile::quiet(),
        1 => Profile::light(),
        2 => Profile::chaos(),
        3 => Profile::focus(*r.pick(classes), *r.pick(&[300u32, 700]), *r.pick(&[20u32, 100, 400])),
        _ => Profile::director(directors, "component"),
    }
}

// =================================================================================================
// C15: cursors and execution frontier
// =================================================================================================

#[derive(Clone, Debug)]
enum CurOp {
    Claim { limit: usize, got: Option<usize> },
    Rewind { to: usize, prev: usize },
}

#[derive(Clone, Debug)]
struct CurRec {
    thread: usize,
    call: u64,
    ret: u64,
    op: CurOp,
}

/// Is there a total order of `ops`, consistent with per-thread program order (and, natively, with
/// real-time order), in which every result matches the sequential cursor?
fn linearizable_cursor(ops: &[CurRec], init: usize, real_time: bool, budget: &mut u64) -> Option<bool> {
    // DFS over subsets (bitmask) with memo on (mask, cursor value).
    let n = ops.len();
    assert!(n <= 60);
    let mut memo: HashSet<(u64, usize)> = HashSet::new();
    fn go(
        ops: &[CurRec],
        mask: u64,
        cur: usize,
        real_time: bool,
        memo: &mut HashSet<(u64, usize)>,
        budget: &mut u64,
    ) -> Option<bool> {
        let n = ops.len();
        if mask == (1u64 << n) - 1 {
            return Some(true);
        }
        if !memo.insert((mask, cur)) {
            return Some(false);
        }
        if *budget == 0 {
            return None;
        }
        *budget -= 1;
        // an op may go next if every op that must precede it is already placed
        'cand: for i in 0..n {
            if mask & (1 << i) != 0 {
                continue;
            }
            for j in 0..n {
                if j == i || mask & (1 << j) != 0 {
                    continue;
                }
                let same_thread_earlier = ops[j].thread == ops[i].thread && ops[j].call < ops[i].call;
                let real_time_earlier = real_time && ops[j].ret < ops[i].call;
                if same_thread_earlier || real_time_earlier {
                    continue 'cand;
                }
            }
            let next = match ops[i].op {
                CurOp::Claim { limit, got } => {
                    let want = if cur < limit { Some(cur) } else { None };
                    if want != got {
                        continue;
                    }
                    if got.is_some() { cur + 1 } else { cur }
                }
                CurOp::Rewind { to, prev } => {
                    if prev != cur {
                        continue;
                    }
                    cur.min(to)
                }
            };
            match go(ops, mask | (1 << i), next, real_time, memo, budget) {
                Some(true) => return Some(true),
                None => return None,
                Some(false) => {}
            }
        }
        Some(false)
    }
    go(ops, 0, init, real_time, &mut memo, budget)
}

pub struct C15;

impl Campaign for C15 {
    fn prop(&self) -> &'static str {
        "C15"
    }
    fn iterate(&self, iter_seed: u64, rep: &mut ShardReport, _deadline: Instant) {
        let mut r = Rng::new(iter_seed);
        if r.chance(1, 2) {
            c15_raw(iter_seed, &mut r, rep);
        } else {
            c15_context(iter_seed, &mut r, rep);
        }
    }
}

/// Part (a): the bare rewindable cursor, explicit limits, linearizability + re-offer.
fn c15_raw(iter_seed: u64, r: &mut Rng, rep: &mut ShardReport) {
    let n = r.range(3, 10) as usize;
    let init = r.below(n as u64 + 1) as usize;
    let claimers = r.range(2, 3) as usize;
    let rewinders = r.range(1, 2) as usize;
    let ops_per_thread = r.range(2, if cfg!(miri) { 4 } else { 6 }) as usize;
    let cursor = RawCursor::new(init);
    let clock = Clock::new();
    let profile = component_profile(r, &[obs::Class::Cursor], 0);
    obs().begin_run(&profile, r.next());
    let mut seeds: Vec<u64> = (0..claimers + rewinders).map(|_| r.next()).collect();
    let recs: Vec<Vec<CurRec>> = std::thread::scope(|s| {
        let mut hs = Vec::new();
        for t in 0..claimers + rewinders {
            let seed = seeds.pop().unwrap();
            let cursor = &cursor;
            let clock = &clock;
            hs.push(s.spawn(move || {
                let mut tr = Rng::new(seed);
                let mut out = Vec::new();
                for _ in 0..ops_per_thread {
                    jitter(&mut tr);
                    if t < claimers {
                        let limit = tr.below(n as u64 + 1) as usize;
                        let call = clock.tick();
                        let got = cursor.claim_before(limit);
                        let ret = clock.tick();
                        out.push(CurRec { thread: t, call, ret, op: CurOp::Claim { limit, got } });
                    } else {
                        let to = tr.below(n as u64) as usize;
                        let call = clock.tick();
                        let prev = cursor.rewind(to);
                        let ret = clock.tick();
                        out.push(CurRec { thread: t, call, ret, op: CurOp::Rewind { to, prev } });
                    }
                }
                out
            }));
        }
        hs.into_iter().map(|h| h.join().unwrap()).collect()
    });
    // quiescent drain by the main thread (program order after the joins)
    let mut all: Vec<CurRec> = recs.into_iter().flatten().collect();
    let drain_thread = claimers + rewinders;
    loop {
        let call = clock.tick();
        let got = cursor.claim_before(n);
        let ret = clock.tick();
        all.push(CurRec { thread: drain_thread, call, ret, op: CurOp::Claim { limit: n, got } });
        if got.is_none() {
            break;
        }
    }
    let _ = obs().end_run();
    all.sort_by_key(|o| o.call);
    rep.evaluations += 1;
    let mut sig = Fnv::default();
    let mut overlap = false;
    for (i, o) in all.iter().enumerate() {
        sig.add(o.thread as u64);
        match &o.op {
            CurOp::Claim { limit, got } => {
                sig.add(*limit as u64);
                sig.add(got.map(|g| g as u64 + 1).unwrap_or(0));
            }
            CurOp::Rewind { to, prev } => {
                sig.add(1000 + *to as u64);
                sig.add(*prev as u64);
                if all[..i].iter().chain(all[i + 1..].iter()).any(|p| {
                    matches!(p.op, CurOp::Claim { .. }) && p.call < o.ret && o.call < p.ret && p.thread != drain_thread
                }) {
                    overlap = true;
                }
            }
        }
    }
    let key = (iter_seed, sig.0);
    rep.distinct.insert(key);
    if overlap {
        rep.distinct_nontrivial.insert(key);
        rep.bump("histories_with_rewind_overlapping_claim", 1);
    }
    rep.bump("cursor_histories", 1);
    rep.bump("cursor_ops", all.len() as u64);
    let hist: Vec<String> = all.iter().map(|o| format!("{o:?}")).collect();
    // (b) no claim at or beyond its limit
    for o in &all {
        if let CurOp::Claim { limit, got: Some(g) } = o.op &&
            g >= limit
        {
            rep.findings.push(finding("C15", "LIN", format!("claim_before({limit}) handed out index {g}"), iter_seed, hist.clone()));
            return;
        }
    }
    // (c) every rewound index is offered again after the rewind began
    for o in &all {
        if let CurOp::Rewind { to, prev } = o.op {
            for idx in to..prev.min(n) {
                let reoffered = all.iter().any(|c| matches!(c.op, CurOp::Claim { got: Some(g), .. } if g == idx) && c.ret > o.call);
                if !reoffered {
                    rep.findings.push(finding(
                        "C15",
                        "LIN",
                        format!("rewind({to}) from {prev}: index {idx} was never offered for validation again"),
                        iter_seed,
                        hist.clone(),
                    ));
                    return;
                }
            }
        }
    }
    // (a) linearizability against the sequential cursor
    let mut budget = 400_000u64;
    match linearizable_cursor(&all, init, !cfg!(miri), &mut budget) {
        Some(true) => {}
        Some(false) => rep.findings.push(finding(
            "C15",
            "LIN",
            "claim/rewind history is not linearizable w.r.t. the sequential cursor (c<l ? Some(c++) : None; rewind(v): old c, c=min(c,v))".into(),
            iter_seed,
            hist,
        )),
        None => rep.inconclusive.push(format!("C15 iter_seed={iter_seed} linearizability search exceeded its budget")),
    }
    if rep.samples.len() < 2 && overlap {
        rep.samples.push(serde_json::json!({"kind": "raw cursor history", "n": n, "init": init, "ops": all.iter().map(|o| format!("{o:?}")).collect::<Vec<_>>() }));
    }
}

#[derive(Clone, Debug)]
enum CtxOp {
    Claim { executing: usize, got: Option<usize> },
    Rewind { to: usize },
    Executed { idx: usize },
    Frontier { got: usize },
    /// witness: after rewind(to) returned, lower_timestamp(to) does not exceed a timestamp
    /// captured before the call
    StaleLowerTs { to: usize, ts_before: usize, lower_after: usize },
}

#[derive(Clone, Debug)]
struct CtxRec {
    thread: usize,
    call: u64,
    ret: u64,
    op: CtxOp,
}

/// Part (b): the production SchedulerContext: claims limited by the execution frontier,
/// out-of-order publishers, a frontier reader.
fn c15_context(iter_seed: u64, r: &mut Rng, rep: &mut ShardReport) {
    let n = r.range(3, 12) as usize;
    let ctx = Cursors::new(n);
    let clock = Clock::new();
    let claimers = r.range(2, 4) as usize;
    let rewinders = r.range(1, 2) as usize;
    let publishers = r.range(1, 3) as usize;
    let per = r.range(3, if cfg!(miri) { 5 } else { 10 }) as usize;
    // each index is published at least once, in a random order, split over the publishers
    let mut order: Vec<usize> = (0..n).collect();
    r.shuffle(&mut order);
    let mut extra: Vec<usize> = (0..r.below(n as u64 + 1)).map(|_| r.below(n as u64) as usize).collect();
    order.append(&mut extra);
    let chunks: Vec<Vec<usize>> = (0..publishers).map(|p| order.iter().copied().skip(p).step_by(publishers).collect()).collect();
    let profile = component_profile(r, &[obs::Class::Cursor, obs::Class::EstimateRewind], 0);
    obs().begin_run(&profile, r.next());
    let total = claimers + rewinders + publishers + 1;
    let seeds: Vec<u64> = (0..total).map(|_| r.next()).collect();
    let recs: Vec<Vec<CtxRec>> = std::thread::scope(|s| {
        let mut hs = Vec::new();
        for t in 0..total {
            let seed = seeds[t];
            let ctx = &ctx;
            let clock = &clock;
            let chunk = if t >= claimers + rewinders && t < claimers + rewinders + publishers {
                chunks[t - claimers - rewinders].clone()
            } else {
                vec![]
            };
            hs.push(s.spawn(move || {
                let mut tr = Rng::new(seed);
                let mut out = Vec::new();
                if t < claimers {
                    for _ in 0..per {
                        jitter(&mut tr);
                        let executing = tr.below(n as u64 + 1) as usize;
                        let call = clock.tick();
                        let got = ctx.claim(executing);
                        let ret = clock.tick();
                        out.push(CtxRec { thread: t, call, ret, op: CtxOp::Claim { executing, got } });
                    }
                } else if t < claimers + rewinders {
                    for _ in 0..per.min(4) {
                        jitter(&mut tr);
                        let to = tr.below(n as u64) as usize;
                        // a validation that captured its timestamp before this rewind began must
                        // not be able to pass finality afterwards: the rewind has to raise the
                        // index's lower timestamp above it, whatever the cursor position was
                        let ts_before = ctx.logical_timestamp();
                        let call = clock.tick();
                        ctx.rewind(to);
                        let ret = clock.tick();
                        let lower_after = ctx.lower_timestamp(to);
                        out.push(CtxRec { thread: t, call, ret, op: CtxOp::Rewind { to } });
                        if lower_after <= ts_before {
                            out.push(CtxRec { thread: t, call, ret, op: CtxOp::StaleLowerTs { to, ts_before, lower_after } });
                        }
                    }
                } else if t < claimers + rewinders + publishers {
                    for idx in chunk {
                        jitter(&mut tr);
                        let call = clock.tick();
                        ctx.executed(idx);
                        let ret = clock.tick();
                        out.push(CtxRec { thread: t, call, ret, op: CtxOp::Executed { idx } });
                    }
                } else {
                    for _ in 0..per {
                        jitter(&mut tr);
                        let call = clock.tick();
                        let got = ctx.frontier();
                        let ret = clock.tick();
                        out.push(CtxRec { thread: t, call, ret, op: CtxOp::Frontier { got } });
                    }
                }
                out
            }));
        }
        hs.into_iter().map(|h| h.join().unwrap()).collect()
    });
    let mut all: Vec<CtxRec> = recs.into_iter().flatten().collect();
    // quiescence (all threads joined): frontier must have caught up, drain must re-offer everything
    let q_frontier = ctx.frontier();
    let drain_thread = total;
    let drain_start = clock.tick();
    loop {
        let call = clock.tick();
        let got = ctx.claim(n);
        let ret = clock.tick();
        all.push(CtxRec { thread: drain_thread, call, ret, op: CtxOp::Claim { executing: n, got } });
        if got.is_none() {
            break;
        }
    }
    let _ = obs().end_run();
    all.sort_by_key(|o| o.call);
    rep.evaluations += 1;
    let mut sig = Fnv::default();
    for o in &all {
        sig.add(o.thread as u64);
        sig.add_bytes(format!("{:?}", o.op).as_bytes());
    }
    let key = (iter_seed, sig.0);
    rep.distinct.insert(key);
    let pubs: Vec<&CtxRec> = all.iter().filter(|o| matches!(o.op, CtxOp::Executed { .. })).collect();
    let first_call = |idx: usize| pubs.iter().filter(|p| matches!(p.op, CtxOp::Executed { idx: i } if i == idx)).map(|p| p.call).min();
    let first_ret = |idx: usize| pubs.iter().filter(|p| matches!(p.op, CtxOp::Executed { idx: i } if i == idx)).map(|p| p.ret).min();
    let out_of_order = pubs.windows(2).any(|w| match (&w[0].op, &w[1].op) {
        (CtxOp::Executed { idx: a }, CtxOp::Executed { idx: b }) => b < a,
        _ => false,
    });
    let rewind_overlap = all.iter().any(|o| {
        matches!(o.op, CtxOp::Rewind { .. }) &&
            all.iter().any(|p| matches!(p.op, CtxOp::Claim { .. }) && p.thread != drain_thread && p.call < o.ret && o.call < p.ret)
    });
    if out_of_order || rewind_overlap {
        rep.distinct_nontrivial.insert(key);
    }
    rep.bump("context_histories", 1);
    rep.bump("context_ops", all.len() as u64);
    rep.bump("histories_with_out_of_order_publish", out_of_order as u64);
    rep.bump("histories_with_rewind_overlapping_claim", rewind_overlap as u64);
    let hist: Vec<String> = all.iter().map(|o| format!("{o:?}")).collect();
    let fail = |rep: &mut ShardReport, msg: String| {
        rep.findings.push(finding("C15", "FRONTIER", msg, iter_seed, hist.clone()));
    };
    for o in &all {
        if let CtxOp::StaleLowerTs { to, ts_before, lower_after } = o.op {
            fail(rep, format!(
                "rewind_validation_to({to}) returned but lower_timestamp({to}) = {lower_after} does not exceed a validation timestamp {ts_before} captured before the rewind began: that validation could still reach finality"
            ));
            return;
        }
    }
    // quiescent frontier = first unpublished index = n (every index was published)
    if q_frontier != n {
        fail(rep, format!("after all {n} indices were published and every thread joined, the execution frontier is {q_frontier}"));
        return;
    }
    for o in &all {
        match o.op {
            CtxOp::Frontier { got } => {
                // never passes an index whose publication has not begun
                for k in 0..got.min(n) {
                    if first_call(k).is_none_or(|c| c > o.ret) {
                        fail(rep, format!("frontier() returned {got} before executed({k}) had begun"));
                        return;
                    }
                }
                // catches up with completed ones (real-time order: native runs only)
                if !cfg!(miri) {
                    let mut m = 0;
                    while m < n && first_ret(m).is_some_and(|rt| rt < o.call) {
                        m += 1;
                    }
                    if got < m {
                        fail(rep, format!("frontier() returned {got} although executed(k) had completed for all k < {m} before the call"));
                        return;
                    }
                }
            }
            CtxOp::Claim { executing, got: Some(g) } => {
                if g >= executing {
                    fail(rep, format!("claim with executing_idx {executing} handed out {g}"));
                    return;
                }
                if first_call(g).is_none_or(|c| c > o.ret) {
                    fail(rep, format!("validation index {g} was handed out before executed({g}) had begun"));
                    return;
                }
                for k in 0..g {
                    if first_call(k).is_none_or(|c| c > o.ret) {
                        fail(rep, format!("validation index {g} was handed out although executed({k}) had not begun (frontier passed an unexecuted transaction)"));
                        return;
                    }
                }
            }
            _ => {}
        }
    }
    // every rewind is followed by a re-offer of its index (all indices are published at quiescence)
    for o in &all {
        if let CtxOp::Rewind { to } = o.op {
            // whatever the cursor was, after the rewind began the cursor is <= to at some point, so
            // index `to` must be claimed by an operation that ends after the rewind began, unless
            // the cursor never moved past `to` before (then a claim of `to` still has to happen in
            // the drain at the latest)
            let reoffered = all.iter().any(|c| matches!(c.op, CtxOp::Claim { got: Some(g), .. } if g == to) && c.ret > o.call);
            if !reoffered {
                fail(rep, format!("rewind_validation_to({to}): index {to} was never offered again (drain started at stamp {drain_start})"));
                return;
            }
        }
    }
    if rep.samples.len() < 2 && out_of_order {
        rep.samples.push(serde_json::json!({"kind": "scheduler-context history", "n": n, "ops": hist.iter().take(60).collect::<Vec<_>>() }));
    }
}

// =================================================================================================
// C16: dependency graph, driven by a protocol-faithful mini scheduler
// =================================================================================================

#[derive(Clone, Copy, Debug, PartialEq, Eq)]
enum Outcome {
    Ok,
    /// conflict: blocked on predecessor `d` (estimate read)
    ConflictOn(usize),
    /// conflict with nobody left to wait for
    ConflictNone,
    /// EVM error, not blocked: parked behind the own commit boundary
    Error,
}

#[derive(Clone, Copy, Debug, PartialEq, Eq)]
enum St {
    Initial,
    Executing,
    Executed,
    Conflict,
    Done,
}

struct MiniTx {
    st: St,
    incarnation: usize,
    /// whether the current result still has to fail one validation
    fail_validation: bool,
}

#[derive(Clone, Debug)]
enum DepEv {
    /// `call`: stamp taken before the claiming operation was invoked (event stamp = after return)
    Claim { tx: usize, via: &'static str, call: u64 },
    /// an operation that can re-arm `tx` for claiming; event stamp = before the call, `ret` after
    Onboard { tx: usize, how: String, ret: u64 },
    Commit { tx: usize },
}

pub struct C16;

impl Campaign for C16 {
    fn prop(&self) -> &'static str {
        "C16"
    }
    fn iterate(&self, iter_seed: u64, rep: &mut ShardReport, _deadline: Instant) {
        let mut r = Rng::new(iter_seed);
        let n = r.range(2, if cfg!(miri) { 3 } else { 5 }) as usize;
        let workers = r.range(1, 3) as usize;
        // scripted outcomes per tx and attempt; finitely many failures
        let scripts: Vec<Vec<Outcome>> = (0..n)
            .map(|t| {
                let fails = r.below(if cfg!(miri) { 2 } else { 4 }) as usize;
                let mut v: Vec<Outcome> = (0..fails)
                    .map(|_| match r.below(4) {
                        0 if t > 0 => Outcome::ConflictOn(r.below(t as u64) as usize),
                        1 => Outcome::ConflictNone,
                        2 => Outcome::Error,
                        _ if t > 0 => Outcome::ConflictOn(t - 1),
                        _ => Outcome::ConflictNone,
                    })
                    .collect();
                v.push(Outcome::Ok);
                v
            })
            .collect();
        let val_fail: Vec<bool> = (0..n).map(|_| r.chance(1, 4)).collect();
        let deps = Deps::new(n);
        let txs: Vec<Mutex<MiniTx>> = (0..n).map(|_| Mutex::new(MiniTx { st: St::Initial, incarnation: 0, fail_validation: false })).collect();
        let clock = Clock::new();
        let stop = AtomicBool::new(false);
        let stalled = AtomicBool::new(false);
        let progress = AtomicU64::new(0);
        let idle: Vec<AtomicU64> = (0..workers).map(|_| AtomicU64::new(0)).collect();
        // unsuccessful next() calls per worker, never reset (stall watchdog)
        let polls: Vec<AtomicU64> = (0..workers).map(|_| AtomicU64::new(0)).collect();
        let committed = AtomicUsize::new(0);
        // number of boundaries for which the commit thread has *finished* releasing the successor
        let released = AtomicUsize::new(0);
        let profile = component_profile(&mut r, &[obs::Class::Dep], 0);
        obs().begin_run(&profile, r.next());
        let seeds: Vec<u64> = (0..workers + 1).map(|_| r.next()).collect();

        let events: Vec<Vec<(u64, DepEv)>> = std::thread::scope(|s| {
            let mut hs = Vec::new();
            for w in 0..workers {
                let (deps, txs, clock, stop, progress, idle, polls, committed, scripts, val_fail) =
                    (&deps, &txs, &clock, &stop, &progress, &idle, &polls, &committed, &scripts, &val_fail);
                let seed = seeds[w];
                hs.push(s.spawn(move || {
                    let mut tr = Rng::new(seed);
                    let mut log: Vec<(u64, DepEv)> = Vec::new();
                    // mirrors Scheduler::execution_task
                    let execution_task = |t: usize, log: &mut Vec<(u64, DepEv)>| -> Option<usize> {
                        let mut tx = txs[t].lock();
                        match tx.st {
                            St::Initial | St::Conflict => {
                                tx.st = St::Executing;
                                tx.incarnation += 1;
                                Some(t)
                            }
                            St::Executing => None,
                            _ => {
                                drop(tx);
                                let _ = log;
                                deps.remove(t, false);
                                None
                            }
                        }
                    };
                    while !stop.load(Ordering::Acquire) {
                        jitter(&mut tr);
                        // validation duty: an executed transaction may fail one validation
                        if tr.chance(1, 3) {
                            let t = tr.below(txs.len() as u64) as usize;
                            let mut tx = txs[t].lock();
                            if tx.st == St::Executed && tx.fail_validation {
                                tx.fail_validation = false;
                                tx.st = St::Conflict;
                                let fin = committed.load(Ordering::Acquire);
                                let dep = if t > 0 && tr.chance(2, 3) { Some(tr.below(t as u64) as usize).filter(|d| *d >= fin) } else { None };
                                let call = clock.tick();
                                deps.add(t, dep);
                                let ret = clock.tick();
                                log.push((call, DepEv::Onboard { tx: t, how: format!("validate-conflict add({dep:?})"), ret }));
                                if let Some(d) = dep {
                                    log.push((call, DepEv::Onboard { tx: d, how: format!("as blocker of {t}"), ret }));
                                }
                                progress.fetch_add(1, Ordering::Relaxed);
                                continue;
                            }
                        }
                        let call = clock.tick();
                        let mut task = match deps.next() {
                            Some(t) => {
                                log.push((clock.tick(), DepEv::Claim { tx: t, via: "next", call }));
                                execution_task(t, &mut log)
                            }
                            None => None,
                        };
                        if task.is_none() {
                            idle[w].fetch_add(1, Ordering::Relaxed);
                            polls[w].fetch_add(1, Ordering::Relaxed);
                            continue;
                        }
                        while let Some(t) = task.take() {
                            idle[w].store(0, Ordering::Relaxed);
                            progress.fetch_add(1, Ordering::Relaxed);
                            // mirrors Scheduler::execute_task
                            let mut tx = txs[t].lock();
                            if tx.st != St::Executing {
                                break;
                            }
                            let at_head = committed.load(Ordering::Acquire) == t;
                            jitter(&mut tr);
                            let attempt = tx.incarnation - 1;
                            let mut outcome = scripts[t].get(attempt).copied().unwrap_or(Outcome::Ok);
                            if outcome == Outcome::Error && at_head {
                                // production aborts to the sequential replay here (termination);
                                // the driver just lets the attempt succeed
                                outcome = Outcome::Ok;
                            }
                            let mut next = None;
                            match outcome {
                                Outcome::Ok => {
                                    let call = clock.tick();
                                    next = deps.remove(t, true);
                                    if let Some(nx) = next {
                                        log.push((clock.tick(), DepEv::Claim { tx: nx, via: "handoff", call }));
                                    }
                                    tx.st = St::Executed;
                                    tx.fail_validation = val_fail[t] && attempt == 0;
                                }
                                Outcome::ConflictOn(d) => {
                                    let fin = committed.load(Ordering::Acquire);
                                    let dep = Some(d).filter(|d| *d >= fin);
                                    let call = clock.tick();
                                    deps.add(t, dep);
                                    let ret = clock.tick();
                                    log.push((call, DepEv::Onboard { tx: t, how: format!("add({dep:?})"), ret }));
                                    if let Some(d) = dep {
                                        log.push((call, DepEv::Onboard { tx: d, how: format!("as blocker of {t}"), ret }));
                                    }
                                    tx.st = St::Conflict;
                                }
                                Outcome::ConflictNone => {
                                    let call = clock.tick();
                                    deps.add(t, None);
                                    log.push((call, DepEv::Onboard { tx: t, how: "add(None)".into(), ret: clock.tick() }));
                                    tx.st = St::Conflict;
                                }
                                Outcome::Error => {
                                    let call = clock.tick();
                                    deps.key_tx(t);
                                    log.push((call, DepEv::Onboard { tx: t, how: "key_tx".into(), ret: clock.tick() }));
                                    tx.st = St::Conflict;
                                }
                            }
                            drop(tx);
                            if let Some(nx) = next {
                                task = execution_task(nx, &mut log);
                            }
                        }
                    }
                    log
                }));
            }
            // commit thread: publishes the boundary, then releases the successor
            {
                let (deps, txs, clock, stop, progress, committed, released) = (&deps, &txs, &clock, &stop, &progress, &committed, &released);
                let seed = seeds[workers];
                hs.push(s.spawn(move || {
                    let mut tr = Rng::new(seed);
                    let mut log = Vec::new();
                    let mut c = 0;
                    while c < txs.len() && !stop.load(Ordering::Acquire) {
                        jitter(&mut tr);
                        let mut tx = txs[c].lock();
                        if tx.st == St::Executed && !tx.fail_validation {
                            tx.st = St::Done;
                            drop(tx);
                            deps.publish_commit(c + 1);
                            committed.store(c + 1, Ordering::Release);
                            jitter(&mut tr);
                            deps.commit(c);
                            released.store(c + 1, Ordering::Release);
                            log.push((clock.tick(), DepEv::Commit { tx: c }));
                            progress.fetch_add(1, Ordering::Relaxed);
                            c += 1;
                        } else {
                            drop(tx);
                            std::thread::yield_now();
                        }
                    }
                    stop.store(true, Ordering::Release);
                    log
                }));
            }
            // stall watchdog, decided on logical conditions only. The commit head is *stranded* if
            // it needs an execution (Initial / Conflict), the commit thread has finished releasing
            // for the current boundary, nobody is executing anything, nothing has progressed, and
            // meanwhile EVERY worker has completed at least n+2 further unsuccessful `next()` calls
            // (so each of them is demonstrably scheduled, and together they have swept the cursor
            // over the head after the release without being handed it). Three such epochs in a
            // row. A worker that is merely not scheduled (loaded machine) never completes an
            // epoch, so scheduling noise cannot add up to a verdict.
            {
                let (stop, progress, polls, stalled, committed, txs, released) = (&stop, &progress, &polls, &stalled, &committed, &txs, &released);
                s.spawn(move || {
                    let need = txs.len() as u64 + 2;
                    let snapshot = || polls.iter().map(|p| p.load(Ordering::Relaxed)).collect::<Vec<u64>>();
                    let mut base = snapshot();
                    let mut base_progress = progress.load(Ordering::Relaxed);
                    let mut base_c = usize::MAX;
                    let mut epochs = 0;
                    while !stop.load(Ordering::Acquire) {
                        if cfg!(miri) {
                            std::thread::yield_now();
                        } else {
                            std::thread::sleep(Duration::from_micros(300));
                        }
                        let c = committed.load(Ordering::Acquire);
                        let head_needs_execution = c < txs.len() &&
                            released.load(Ordering::Acquire) == c &&
                            matches!(txs[c].lock().st, St::Initial | St::Conflict);
                        let nobody_executing = txs.iter().all(|t| t.lock().st != St::Executing);
                        let now = progress.load(Ordering::Relaxed);
                        if !(head_needs_execution && nobody_executing) || now != base_progress || c != base_c {
                            base = snapshot();
                            base_progress = now;
                            base_c = c;
                            epochs = 0;
                            continue;
                        }
                        let cur = snapshot();
                        if cur.iter().zip(base.iter()).all(|(a, b)| a.saturating_sub(*b) >= need) {
                            epochs += 1;
                            base = cur;
                        }
                        if epochs >= 3 {
                            stalled.store(true, Ordering::Release);
                            stop.store(true, Ordering::Release);
                        }
                    }
                });
            }
            hs.into_iter().map(|h| h.join().unwrap()).collect()
        });
        let _ = obs().end_run();
        rep.evaluations += 1;
        let mut all: Vec<(u64, DepEv)> = events.into_iter().flatten().collect();
        all.sort_by_key(|e| e.0);
        let mut sig = Fnv::default();
        for (_, e) in &all {
            sig.add_bytes(format!("{e:?}").as_bytes());
        }
        let key = (iter_seed, sig.0);
        rep.distinct.insert(key);
        let blocked_then_released = all.iter().any(|(_, e)| matches!(e, DepEv::Onboard { .. }));
        if blocked_then_released {
            rep.distinct_nontrivial.insert(key);
        }
        rep.bump("mini_scheduler_runs", 1);
        rep.bump("dep_protocol_events", all.len() as u64);
        for (_, e) in &all {
            match e {
                DepEv::Claim { via: "handoff", .. } => rep.bump("claims_by_direct_handoff", 1),
                DepEv::Claim { .. } => rep.bump("claims_by_cursor", 1),
                DepEv::Onboard { how, .. } if how.starts_with("key_tx") => rep.bump("parked_behind_commit_boundary", 1),
                DepEv::Onboard { how, .. } if how.starts_with("validate") => rep.bump("reblocked_after_validation_conflict", 1),
                DepEv::Onboard { .. } => rep.bump("blocked_after_execution_conflict", 1),
                DepEv::Commit { .. } => rep.bump("commits", 1),
            }
        }
        let hist: Vec<String> = all.iter().map(|(s, e)| format!("{s} {e:?}")).collect();
        if stalled.load(Ordering::Acquire) {
            let (states, affects) = deps.dump();
            let st: Vec<String> = txs
                .iter()
                .map(|t| {
                    let g = t.lock();
                    format!("{:?}/{}", g.st, g.incarnation)
                })
                .collect();
            rep.findings.push(finding(
                "C16",
                "STRANDED",
                format!(
                    "no transaction can make progress although none is executing: committed={} tx states={st:?} dependency states={states:?} reverse edges={affects:?} cursor={} scripts={scripts:?}",
                    committed.load(Ordering::Acquire),
                    deps.index()
                ),
                iter_seed,
                hist,
            ));
            return;
        }
        // exactly one claimer per onboarding: between two successful claims of the same tx some
        // operation that can re-arm it (add / key_tx, also as somebody's blocker) must lie.
        // Real-time reasoning: native runs only.
        if !cfg!(miri) {
            let mut claims: HashMap<usize, Vec<(u64, u64)>> = HashMap::new(); // tx -> (call, ret)
            for (stamp, e) in &all {
                if let DepEv::Claim { tx, call, .. } = e {
                    claims.entry(*tx).or_default().push((*call, *stamp));
                }
            }
            for (tx, cs) in claims.iter_mut() {
                cs.sort_by_key(|c| c.1);
                for w in cs.windows(2) {
                    let (c1, c2) = (w[0], w[1]);
                    // The claim that *returned* first need not be the one that took effect first (a
                    // thread can be descheduled inside next() for a long time), so a re-arming
                    // operation may lie between the two claims in either order.
                    let rearmed = all.iter().any(|(call, e)| {
                        matches!(e, DepEv::Onboard { tx: t2, ret, .. } if t2 == tx &&
                            ((*call < c2.1 && *ret > c1.0) || (*call < c1.1 && *ret > c2.0)))
                    });
                    if !rearmed {
                        rep.findings.push(finding(
                            "C16",
                            "DOUBLECLAIM",
                            format!("transaction {tx} was handed out twice (claims returning at stamps {} and {}) without being re-armed in between", c1.1, c2.1),
                            iter_seed,
                            hist.clone(),
                        ));
                        return;
                    }
                }
            }
        }
        if rep.samples.len() < 2 && blocked_then_released {
            rep.samples.push(serde_json::json!({"kind": "dependency mini-scheduler", "n": n, "workers": workers, "scripts": format!("{scripts:?}"), "events": hist.iter().take(60).collect::<Vec<_>>() }));
        }
    }
}

// =================================================================================================
// C17: wait slot
// =================================================================================================

pub struct C17;

impl Campaign for C17 {
    fn prop(&self) -> &'static str {
        "C17"
    }
    fn iterate(&self, iter_seed: u64, rep: &mut ShardReport, _deadline: Instant) {
        let mut r = Rng::new(iter_seed);
        let slot = Slot::new();
        let state = AtomicU64::new(0);
        let notifiers = r.range(1, 2) as usize;
        let per = r.range(1, if cfg!(miri) { 3 } else { 6 });
        let target = notifiers as u64 * per;
        let waiter_done = AtomicBool::new(false);
        let register_late = r.chance(1, 3);
        let mut profile = component_profile(&mut r, &[obs::Class::Wait], obs::D_WAIT | obs::D_AFTER_NOTIFY);
        profile.timeout_free = true;
        obs().begin_run(&profile, r.next());
        let seeds: Vec<u64> = (0..notifiers + 1).map(|_| r.next()).collect();
        let mut lost = None;
        std::thread::scope(|s| {
            let (slot, state, waiter_done) = (&slot, &state, &waiter_done);
            let wseed = seeds[notifiers];
            let waiter = s.spawn(move || {
                let mut tr = Rng::new(wseed);
                if register_late {
                    for _ in 0..tr.below(50) {
                        std::thread::yield_now();
                    }
                }
                slot.register_current_thread();
                let mut seen = 0u64;
                while seen < target {
                    // wait until the counter moves past what we have consumed
                    slot.wait_while(Duration::from_secs(8), || state.load(Ordering::Acquire) <= seen);
                    let now = state.load(Ordering::Acquire);
                    if now > seen {
                        seen = now;
                    }
                    jitter(&mut tr);
                }
                waiter_done.store(true, Ordering::Release);
            });
            let mut hs = Vec::new();
            for i in 0..notifiers {
                let seed = seeds[i];
                hs.push(s.spawn(move || {
                    let mut tr = Rng::new(seed);
                    for _ in 0..per {
                        jitter(&mut tr);
                        if !cfg!(miri) && tr.chance(1, 4) {
                            std::thread::sleep(Duration::from_micros(tr.below(300)));
                        }
                        // publish, then notify (the producer discipline of the scheduler)
                        state.fetch_add(1, Ordering::AcqRel);
                        slot.notify();
                    }
                }));
            }
            for h in hs {
                h.join().unwrap();
            }
            // all notifications were issued after their publications: the waiter must finish
            let start = Instant::now();
            let mut stable = 0u64;
            while !waiter_done.load(Ordering::Acquire) {
                std::thread::yield_now();
                // Miri: no wall clock; the condition "parked although everything was published and
                // notified" must be observed on many consecutive polls (it is stable once true)
                let parked_now = obs().parked.iter().any(|p| p.load(Ordering::Relaxed) > 0);
                if cfg!(miri) {
                    if parked_now && state.load(Ordering::Acquire) >= target {
                        stable += 1;
                    } else {
                        stable = 0;
                    }
                }
                let expired = if cfg!(miri) { stable > 400 } else { start.elapsed() > Duration::from_millis(5000) };
                if expired {
                    let mut parked = obs().parked.iter().any(|p| p.load(Ordering::Relaxed) > 0);
                    if parked && !cfg!(miri) {
                        // An unparked thread that the OS has not scheduled yet still looks parked.
                        // Scheduling canaries: threads made runnable *after* the waiter must have run
                        // (three rounds) while the waiter is still parked, before this is a verdict.
                        for _ in 0..20 {
                            let ran = AtomicBool::new(false);
                            std::thread::scope(|cs| {
                                cs.spawn(|| ran.store(true, Ordering::Release));
                            });
                            debug_assert!(ran.load(Ordering::Acquire));
                            std::thread::sleep(Duration::from_millis(700));
                            parked = obs().parked.iter().any(|p| p.load(Ordering::Relaxed) > 0);
                            if !parked || waiter_done.load(Ordering::Acquire) {
                                break;
                            }
                        }
                        if waiter_done.load(Ordering::Acquire) {
                            break;
                        }
                    }
                    if parked && state.load(Ordering::Acquire) >= target {
                        lost = Some(format!(
                            "waiter is parked although the awaited state ({target}) was published and every notify() returned (register_late={register_late})"
                        ));
                    } else if !parked && !cfg!(miri) && start.elapsed() < Duration::from_secs(20) {
                        continue;
                    } else if lost.is_none() {
                        lost = Some("waiter did not finish (not parked)".into());
                    }
                    // release it so the run can end
                    state.fetch_add(1_000_000, Ordering::AcqRel);
                    slot.notify();
                    break;
                }
            }
            waiter.join().unwrap();
        });
        let trace = obs().end_run();
        rep.evaluations += 1;
        let mut sig = Fnv::default();
        let mut before_register = 0u64;
        let mut while_parked = 0u64;
        let mut between = 0u64;
        let mut registered = false;
        let mut parked = false;
        let mut in_wait = false;
        let mut timeouts = 0u64;
        use grevm::verif::Event;
        for rec in &trace {
            if let obs::Ev::G(e) = &rec.ev {
                match e {
                    Event::Register { .. } => registered = true,
                    Event::WaitEnter { .. } => in_wait = true,
                    Event::WaitExit { .. } => in_wait = false,
                    Event::ParkEnter { .. } => parked = true,
                    Event::ParkExit { timed_out, .. } => {
                        parked = false;
                        in_wait = false;
                        if *timed_out {
                            timeouts += 1;
                        }
                    }
                    Event::Notify { had_thread, .. } => {
                        if !registered || !had_thread {
                            before_register += 1;
                        } else if parked {
                            while_parked += 1;
                        } else if in_wait {
                            between += 1;
                        }
                    }
                    _ => {}
                }
                sig.add_bytes(format!("{e:?}").as_bytes());
            }
        }
        let key = (iter_seed, sig.0);
        rep.distinct.insert(key);
        if before_register + while_parked + between > 0 {
            rep.distinct_nontrivial.insert(key);
        }
        rep.bump("slot_histories", 1);
        rep.bump("notify_before_registration", before_register);
        rep.bump("notify_while_parked", while_parked);
        rep.bump("notify_between_check_and_park", between);
        rep.bump("park_timeouts", timeouts);
        let hist: Vec<String> = trace.iter().map(|r| format!("{} t{} {:?}", r.seq, r.thread, r.ev)).collect();
        if let Some(msg) = lost {
            rep.findings.push(finding("C17", "LOSTWAKE", msg, iter_seed, hist));
            return;
        }
        if timeouts > 0 {
            rep.findings.push(finding(
                "C17",
                "LOSTWAKE",
                format!("a timeout-free park ended by its timer {timeouts} time(s): the waiter needed the stall timeout to wake up"),
                iter_seed,
                hist,
            ));
            return;
        }
        if rep.samples.len() < 2 && while_parked > 0 {
            rep.samples.push(serde_json::json!({"kind": "wait-slot history", "notifiers": notifiers, "per_notifier": per, "events": hist.iter().take(50).collect::<Vec<_>>() }));
        }
    }
}

// =================================================================================================
// C07 (component part): beneficiary history
// =================================================================================================

#[derive(Clone, Debug, PartialEq)]
enum Eff {
    Unchanged,
    Reward(U256),
    Snapshot(Option<(U256, u64)>),
}

pub struct C07History;

fn info(balance: U256, nonce: u64) -> AccountInfo {
    AccountInfo { balance, nonce, ..Default::default() }
}

impl Campaign for C07History {
    fn prop(&self) -> &'static str {
        "C07"
    }
    fn iterate(&self, iter_seed: u64, rep: &mut ShardReport, _deadline: Instant) {
        let mut r = Rng::new(iter_seed);
        let n = r.range(3, 6) as usize;
        let near_overflow = r.chance(1, 2);
        let anchor = match r.below(3) {
            0 => None,
            _ if near_overflow => Some(info(U256::MAX - U256::from(r.below(12)), 1)),
            _ => Some(info(U256::from(r.below(1000)), r.below(3))),
        };
        let address = Address::with_last_byte(0xbe);
        let hist = History::new(address, anchor.clone(), n);
        // effect of every published version; written by the owner *before* it publishes
        let effects: Mutex<HashMap<(usize, usize), Eff>> = Mutex::new(HashMap::new());
        let owners = n; // one owner thread per transaction slot, as the tx lock serialises them
        let readers = r.range(1, 2) as usize;
        let per = r.range(2, if cfg!(miri) { 4 } else { 8 }) as usize;
        let seeds: Vec<u64> = (0..owners + readers).map(|_| r.next()).collect();
        let violations: Mutex<Vec<String>> = Mutex::new(Vec::new());
        let resolved = AtomicU64::new(0);
        let blocked = AtomicU64::new(0);
        let chained = AtomicU64::new(0);
        obs().begin_run(&Profile::quiet(), r.next());
        std::thread::scope(|s| {
            for t in 0..owners {
                let (hist, effects, violations) = (&hist, &effects, &violations);
                let seed = seeds[t];
                s.spawn(move || {
                    let mut tr = Rng::new(seed);
                    let mut inc = 0usize;
                    for _ in 0..per {
                        jitter(&mut tr);
                        inc += 1;
                        let ok = match tr.below(6) {
                            0 => hist.record_estimate(t, inc),
                            1 => {
                                effects.lock().insert((t, inc), Eff::Unchanged);
                                hist.record_unchanged(t, inc)
                            }
                            2 => {
                                let snap = if tr.chance(1, 4) {
                                    None
                                } else if !near_overflow && tr.chance(1, 8) {
                                    Some((U256::ZERO, 0))
                                } else {
                                    Some((U256::from(tr.below(1000)) + if near_overflow { U256::MAX - U256::from(2000u64) } else { U256::ZERO }, tr.below(4)))
                                };
                                // a touched account that is empty (no balance, nonce or code) *is* a
                                // deletion for the finalized-account classification (EIP-161), so the
                                // model records "absent" for it
                                let modelled = snap.filter(|(b, n)| !(b.is_zero() && *n == 0));
                                effects.lock().insert((t, inc), Eff::Snapshot(modelled));
                                hist.record_snapshot(t, inc, snap.map(|(b, n)| info(b, n)))
                            }
                            _ => {
                                let amount = U256::from(tr.range(1, 9));
                                effects.lock().insert((t, inc), Eff::Reward(amount));
                                hist.record_reward(t, inc, amount)
                            }
                        };
                        if !ok {
                            violations.lock().push(format!("publication of a strictly newer incarnation ({t},{inc}) was refused"));
                        }
                        // a stale publication must be refused
                        if inc > 1 && tr.chance(1, 4) && hist.record_reward(t, inc - 1, U256::from(77u64)) {
                            violations.lock().push(format!("stale publication ({t},{}) replaced newer incarnation {inc}", inc - 1));
                        }
                        if tr.chance(1, 4) {
                            // validation conflict on exactly this incarnation
                            hist.invalidate(t, inc);
                        }
                        if inc > 1 && tr.chance(1, 5) {
                            // a delayed invalidation of an older incarnation must not hide the newer one:
                            // checked through resolve results (the version map keeps the newer effect)
                            hist.invalidate(t, inc - 1);
                        }
                    }
                });
            }
            for k in 0..readers {
                let (hist, effects, violations, resolved, blocked, chained) = (&hist, &effects, &violations, &resolved, &blocked, &chained);
                let seed = seeds[owners + k];
                let anchor = anchor.clone();
                s.spawn(move || {
                    let mut tr = Rng::new(seed);
                    for _ in 0..per * 3 {
                        jitter(&mut tr);
                        let t = tr.range(1, n as u64) as usize;
                        match hist.resolve_before(t) {
                            Err(b) => {
                                blocked.fetch_add(1, Ordering::Relaxed);
                                if b >= t {
                                    violations.lock().push(format!("resolve_before({t}) reported blocker {b}"));
                                }
                            }
                            Ok(read) => {
                                resolved.fetch_add(1, Ordering::Relaxed);
                                if read.origins.len() > 1 {
                                    chained.fetch_add(1, Ordering::Relaxed);
                                }
                                // contiguous from t-1 downwards
                                for (j, (w, _)) in read.origins.iter().enumerate() {
                                    if *w != t - 1 - j {
                                        violations.lock().push(format!("resolve_before({t}) origin chain is not contiguous: {:?}", read.origins));
                                        return;
                                    }
                                }
                                let map = effects.lock();
                                let mut base: Option<(U256, u64)> = anchor.as_ref().map(|a| (a.balance, a.nonce));
                                let mut rewards_newest_first = Vec::new();
                                let mut ended_at_snapshot = false;
                                for (idx, (w, inc)) in read.origins.iter().enumerate() {
                                    match map.get(&(*w, *inc)) {
                                        None => {
                                            violations.lock().push(format!("resolve_before({t}) names version ({w},{inc}) that was never published as exact"));
                                            return;
                                        }
                                        Some(Eff::Unchanged) => {}
                                        Some(Eff::Reward(a)) => rewards_newest_first.push(*a),
                                        Some(Eff::Snapshot(sn)) => {
                                            base = *sn;
                                            ended_at_snapshot = true;
                                            if idx != read.origins.len() - 1 {
                                                violations.lock().push(format!("resolve_before({t}) walked past snapshot writer {w}: {:?}", read.origins));
                                                return;
                                            }
                                        }
                                    }
                                }
                                if !ended_at_snapshot && read.origins.len() != t {
                                    violations.lock().push(format!("resolve_before({t}) chain {:?} stops before the anchor without a snapshot", read.origins));
                                    return;
                                }
                                // fold oldest first with checked add; a non-zero reward materialises an absent account
                                let mut acc = base;
                                for a in rewards_newest_first.iter().rev() {
                                    let (b, nn) = acc.unwrap_or((U256::ZERO, 0));
                                    acc = Some((b.checked_add(*a).unwrap_or(b), nn));
                                }
                                let got = read.account.as_ref().map(|i| (i.balance, i.nonce));
                                if got != acc {
                                    violations.lock().push(format!(
                                        "resolve_before({t}) = {got:?} but folding its own origin chain {:?} oldest-first gives {acc:?}",
                                        read.origins
                                    ));
                                    return;
                                }
                            }
                        }
                    }
                });
            }
        });
        let _ = obs().end_run();
        rep.evaluations += 1;
        let mut sig = Fnv::default();
        sig.add(resolved.load(Ordering::Relaxed));
        sig.add(blocked.load(Ordering::Relaxed));
        sig.add(chained.load(Ordering::Relaxed));
        let key = (iter_seed, sig.0);
        rep.distinct.insert(key);
        if chained.load(Ordering::Relaxed) > 0 {
            rep.distinct_nontrivial.insert(key);
        }
        rep.bump("history_runs", 1);
        rep.bump("history_resolves_ok", resolved.load(Ordering::Relaxed));
        rep.bump("history_resolves_blocked", blocked.load(Ordering::Relaxed));
        rep.bump("history_resolves_with_chain_gt1", chained.load(Ordering::Relaxed));
        let v = violations.into_inner();
        if let Some(msg) = v.first() {
            rep.findings.push(finding("C07", "HISTORY", msg.clone(), iter_seed, v.clone()));
        }
    }
}

pub fn sample_placeholder() -> BTreeMap<String, u64> {
    BTreeMap::new()
}
