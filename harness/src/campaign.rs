//! Scheduler-level campaigns: generate a block, run the in-order reference, run grevm under a
//! random configuration / perturbation profile, apply every monitor.

use crate::{
    compare::{diff_bundle, diff_outcomes, diff_readback},
    db::{FaultDb, FaultPlan},
    monitors::{TraceInput, TraceStats, Violation, check_trace},
    obs::{self, CLASSES, Profile},
    reference::{RefOptions, RefRun, run_plain},
    rng::Rng,
    run::{Entry, RunCfg, RunOut, cfg_env, probe_addrs, probe_slots, run_grevm},
    world::{Case, GenParams},
};
use grevm::DelegatedSafetyConfig;
use std::{
    collections::{BTreeMap, HashSet},
    sync::Arc,
    time::{Duration, Instant},
};

#[derive(Clone, Debug)]
pub struct Finding {
    pub property: String,
    pub monitor: String,
    pub owner: String,
    pub signature: String,
    pub message: String,
    pub replay: serde_json::Value,
}

#[derive(Default)]
pub struct ShardReport {
    pub evaluations: u64,
    pub distinct: HashSet<(u64, u64)>,
    pub distinct_nontrivial: HashSet<(u64, u64)>,
    pub stats: TraceStats,
    pub samples: Vec<serde_json::Value>,
    pub findings: Vec<Finding>,
    pub inconclusive: Vec<String>,
    pub profiles: BTreeMap<String, u64>,
    pub configs: BTreeMap<String, u64>,
    pub families: BTreeMap<String, u64>,
    pub specs: BTreeMap<String, u64>,
    pub holds: u64,
    pub hold_hits: u64,
    pub delays: u64,
    pub extra: BTreeMap<String, u64>,
    pub wall_s: f64,
}

impl ShardReport {
    pub fn bump(&mut self, key: &str, n: u64) {
        *self.extra.entry(key.to_string()).or_insert(0) += n;
    }
    pub fn to_json(&self) -> serde_json::Value {
        serde_json::json!({
            "evaluations": self.evaluations,
            "distinct": self.distinct.iter().map(|(a, b)| format!("{a:016x}:{b:016x}")).collect::<Vec<_>>(),
            "distinct_nontrivial": self.distinct_nontrivial.iter().map(|(a, b)| format!("{a:016x}:{b:016x}")).collect::<Vec<_>>(),
            "stats": self.stats.to_json(),
            "samples": self.samples,
            "findings": self.findings.iter().map(|f| serde_json::json!({
                "property": f.property, "monitor": f.monitor, "owner": f.owner,
                "signature": f.signature, "message": f.message, "replay": f.replay,
            })).collect::<Vec<_>>(),
            "inconclusive": self.inconclusive,
            "profiles": self.profiles,
            "configs": self.configs,
            "families": self.families,
            "specs": self.specs,
            "holds": self.holds,
            "hold_hits": self.hold_hits,
            "delays": self.delays,
            "extra": self.extra,
            "wall_s": self.wall_s,
        })
    }
}

pub fn pick_profile(r: &mut Rng, weights: &ProfileWeights) -> Profile {
    let w = [weights.quiet, weights.light, weights.chaos, weights.focus, weights.director];
    match r.weighted(&w) {
        0 => Profile::quiet(),
        1 => Profile::light(),
        2 => Profile::chaos(),
        3 => {
            let c = if !weights.focus_classes.is_empty() && r.chance(3, 4) {
                *r.pick(weights.focus_classes)
            } else {
                *r.pick(CLASSES)
            };
            let us = *r.pick(&[100u32, 300, 1000, 2500]);
            Profile::focus(c, *r.pick(&[300u32, 600, 900]), us)
        }
        _ => {
            let all = [
                (obs::D_CLAIM_LOCK, "claim-lock"),
                (obs::D_VALIDATE_SCAN, "validate-scan"),
                (obs::D_EXEC_PUBLISH, "exec-publish"),
                (obs::D_COMMIT_HEAD, "commit-head"),
                (obs::D_COORD, "coordinators"),
                (obs::D_WAIT, "wait"),
                (obs::D_CACHE, "cache"),
                (obs::D_FINISH_AT_HEAD, "finish-at-head"),
                (obs::D_AFTER_NOTIFY, "after-notify"),
                (obs::D_ESTIMATE_REWIND, "estimate-rewind"),
                (obs::D_GATE, "gate"),
            ];
            let allowed: Vec<_> = all.iter().filter(|(b, _)| weights.directors & b != 0).collect();
            let (bits, name) = if allowed.is_empty() { all[r.usize(all.len())] } else { **r.pick(&allowed) };
            let mut p = Profile::director(bits, name);
            if r.chance(1, 3) {
                // combine with a second director
                let (b2, n2) = all[r.usize(all.len())];
                p.directors |= b2;
                p.name = format!("{}+{}", p.name, n2);
            }
            p
        }
    }
}

#[derive(Clone, Debug)]
pub struct ProfileWeights {
    pub quiet: u32,
    pub light: u32,
    pub chaos: u32,
    pub focus: u32,
    pub director: u32,
    pub focus_classes: &'static [obs::Class],
    pub directors: u32,
}

impl Default for ProfileWeights {
    fn default() -> Self {
        Self { quiet: 2, light: 2, chaos: 2, focus: 6, director: 6, focus_classes: &[], directors: u32::MAX }
    }
}

pub fn pick_runcfg(r: &mut Rng, n_txs: usize, pw: &ProfileWeights, seq_pct: u64) -> RunCfg {
    let workers = *r.pick(&[1usize, 2, 2, 3, 4, 4, 6, 8, 16]);
    let (min_parallel_txs, force_sequential, entry) = if r.chance(seq_pct, 100) {
        match r.below(3) {
            0 => (0, true, Entry::Execute),
            1 => (n_txs + 1, false, Entry::Execute),
            _ => (0, false, Entry::FallbackSequential),
        }
    } else {
        let entry = if r.chance(1, 6) { Entry::ParallelExecute(workers) } else { Entry::Execute };
        (if r.chance(1, 4) { n_txs } else { 0 }, false, entry)
    };
    RunCfg {
        workers,
        min_parallel_txs,
        force_sequential,
        entry,
        safety: DelegatedSafetyConfig::disabled(),
        with_reverts: r.chance(3, 4),
        profile: pick_profile(r, pw),
        seed: r.next(),
    }
}

pub fn reference_for(case: &Case, plan: &FaultPlan, preload: bool, with_reverts: bool) -> RefRun {
    let db = Arc::new(FaultDb::new(case.db.clone(), plan.clone()));
    let db2 = db.clone();
    let db3 = db.clone();
    let addrs = probe_addrs(case);
    let slots = probe_slots(case);
    let opts = RefOptions {
        preload_beneficiary: preload,
        with_reverts,
        precompiles: &[],
        raw_precompiles: &[],
        probe_addrs: &addrs,
        probe_slots: &slots,
        before_readback: &move || db2.disarm(),
        on_tx: &|i| db3.set_marker(i),
    };
    let mut r = run_plain(db.clone(), &cfg_env(case), &case.block, &case.txs, &opts);
    // add database-level accesses (first touches, block hashes) to the semantic access sets
    for (i, key) in db.touched_by_marker() {
        if let Some(set) = r.loaded.get_mut(i) {
            set.insert(key);
        }
    }
    r
}

/// Universal end-state comparison against the reference (monitor `EQ` + `READBACK`).
pub fn check_equal(reference: &RefRun, out: &RunOut) -> Vec<Violation> {
    let mut v = Vec::new();
    match (&reference.error, &out.result) {
        (None, Ok(())) => {}
        (None, Err((txid, sig))) => v.push(Violation {
            monitor: "EQ",
            owner: "C01",
            message: format!("execute() failed at tx {txid} with {sig} although in-order execution completes"),
        }),
        (Some((k, sig)), Ok(())) => v.push(Violation {
            monitor: "EQ",
            owner: "C04",
            message: format!("execute() succeeded although in-order execution fails at tx {k} with {sig}"),
        }),
        (Some((k, sig)), Err((k2, sig2))) => {
            if k != k2 || sig != sig2 {
                v.push(Violation {
                    monitor: "EQ",
                    owner: "C04",
                    message: format!("execute() failed at tx {k2} with {sig2} but in-order execution fails at tx {k} with {sig}"),
                });
            }
        }
    }
    if let Some(d) = diff_outcomes(&reference.outcomes, &out.outcomes) {
        v.push(Violation { monitor: "EQ", owner: "C01", message: d });
    }
    if let Some(d) = diff_bundle(&reference.bundle, &out.bundle) {
        v.push(Violation { monitor: "EQ", owner: "C01", message: d });
    }
    if let Some(d) = diff_readback(&reference.readback, &out.readback) {
        v.push(Violation { monitor: "READBACK", owner: "C10", message: d });
    }
    v
}

pub fn trace_tail(out: &RunOut, n: usize) -> Vec<String> {
    let t = &out.trace;
    let start = t.len().saturating_sub(n);
    t[start..]
        .iter()
        .map(|r| match &r.ev {
            obs::Ev::G(e) => format!("{} t{} r{} {:?}", r.seq, r.thread, r.role, e),
            obs::Ev::Meta(m) => format!(
                "{} t{} r{} CommitMeta tx={} inc={} reads={:?} writes={:?} ben={:?}",
                r.seq, r.thread, r.role, m.txid, m.incarnation, m.read_set, m.write_set, m.beneficiary_effect
            ),
            obs::Ev::State { path, txid, result, delta } => format!(
                "{} t{} r{} CommitState {:?} tx={} result={:?} delta={:?}",
                r.seq, r.thread, r.role, path, txid, result, delta
            ),
            obs::Ev::Skip { txid, error } => format!("{} t{} r{} Skip tx={} {:?}", r.seq, r.thread, r.role, txid, error),
        })
        .collect()
}

pub struct IterCtx<'a> {
    pub prop: &'a str,
    pub iter_seed: u64,
    pub family_idx: usize,
}

/// Record the outcome of one monitored execution into the shard report.
#[allow(clippy::too_many_arguments)]
pub fn record(
    rep: &mut ShardReport,
    ctx: &IterCtx<'_>,
    case: &Case,
    rc: &RunCfg,
    plan: &FaultPlan,
    out: &RunOut,
    stats: &TraceStats,
    violations: Vec<Violation>,
    nontrivial: bool,
) {
    rep.evaluations += 1;
    rep.stats.add(stats);
    rep.holds += out.holds;
    rep.hold_hits += out.hold_hits;
    rep.delays += out.delays;
    *rep.profiles.entry(rc.profile.name.clone()).or_insert(0) += 1;
    *rep.families.entry(case.family.to_string()).or_insert(0) += 1;
    *rep.specs.entry(format!("{:?}", case.spec)).or_insert(0) += 1;
    let cfg_key = format!(
        "w{}{}{}",
        rc.workers,
        if rc.sequential_for(case.txs.len()) { ":seq" } else { ":par" },
        match rc.entry {
            Entry::Execute => "",
            Entry::ParallelExecute(_) => ":pe",
            Entry::FallbackSequential => ":fb",
        }
    );
    *rep.configs.entry(cfg_key).or_insert(0) += 1;
    let key = (case.hash, stats.signature);
    rep.distinct.insert(key);
    if nontrivial {
        rep.distinct_nontrivial.insert(key);
    }
    if let Some(msg) = &out.inconclusive {
        rep.inconclusive.push(format!("{} iter_seed={} {}", ctx.prop, ctx.iter_seed, msg));
    }
    if rep.samples.len() < 3 && (nontrivial || rep.evaluations > 20) {
        rep.samples.push(serde_json::json!({
            "case": case.summary(),
            "config": rc.describe(),
            "faults": plan.describe(),
            "result": match &out.result { Ok(()) => "Ok".to_string(), Err((k, s)) => format!("Err(tx {k}: {s})") },
            "outcomes": out.outcomes.iter().map(|o| match o {
                grevm::TxExecutionOutcome::Executed(r) => format!("{:?} gas={}", match r {
                    revm_context::result::ExecutionResult::Success { .. } => "Success",
                    revm_context::result::ExecutionResult::Revert { .. } => "Revert",
                    revm_context::result::ExecutionResult::Halt { .. } => "Halt",
                }, r.tx_gas_used()),
                grevm::TxExecutionOutcome::Skipped(e) => format!("Skipped({e:?})"),
            }).collect::<Vec<_>>(),
            "interleaving_signature": format!("{:016x}", stats.signature),
            "trace_events": out.trace.len(),
            "reexecutions": stats.reexecutions,
            "validation_conflicts": stats.validation_conflicts,
            "rewinds": stats.rewinds,
            "trace_head": trace_tail_head(out, 40),
        }));
    }
    for viol in violations {
        if rep.findings.len() >= 6 {
            break;
        }
        let signature = finding_signature(&viol);
        rep.findings.push(Finding {
            property: ctx.prop.to_string(),
            monitor: viol.monitor.to_string(),
            owner: viol.owner.to_string(),
            signature,
            message: viol.message.clone(),
            replay: serde_json::json!({
                "property": ctx.prop,
                "monitor": viol.monitor,
                "owner": viol.owner,
                "message": viol.message,
                "iter_seed": ctx.iter_seed,
                "family_idx": ctx.family_idx,
                "case": case.summary(),
                "config": rc.describe(),
                "run_seed": rc.seed,
                "faults": plan.describe(),
                "result": format!("{:?}", out.result),
                "outcomes": out.outcomes.iter().map(|o| format!("{o:?}").chars().take(220).collect::<String>()).collect::<Vec<_>>(),
                "stall": out.stall.as_ref().map(|s| format!("{}: {}", s.class, s.detail)),
                "trace_tail": trace_tail(out, 400),
            }),
        });
    }
}

fn trace_tail_head(out: &RunOut, n: usize) -> Vec<String> {
    let mut v = trace_tail(out, usize::MAX);
    v.truncate(n);
    v
}

/// Stable signature for matching known findings: monitor plus a normalised message class.
pub fn finding_signature(v: &Violation) -> String {
    let class = if v.monitor == "FAULT-NONCE-MAX-PRECHECK" {
        "sender-preread"
    } else if v.monitor == "FAULT-EAGER-CODE" {
        "eager-code-fetch"
    } else if v.message.starts_with("bundle: contracts differ") {
        "bundle-contracts"
    } else if v.message.starts_with("readback: storage(") {
        "storage-slot"
    } else if v.message.starts_with("readback: basic(") {
        "account"
    } else if v.message.starts_with("readback: code(") {
        "code"
    } else {
        "general"
    };
    format!("{}:{}", v.monitor, class)
}

/// One family of a campaign: generator parameters plus weights.
pub struct Family {
    pub weight: u32,
    pub params: GenParams,
}

pub struct SchedCampaign {
    pub prop: &'static str,
    pub families: Vec<Family>,
    pub profiles: ProfileWeights,
    /// percent of runs on the sequential path
    pub seq_pct: u64,
}

pub fn stall_violation(out: &RunOut) -> Option<Violation> {
    out.stall.as_ref().map(|s| Violation {
        monitor: "STALL",
        owner: s.owner,
        message: format!("execution does not make progress without the stall timer: {}; {}", s.class, s.detail),
    })
}

static LAST_PANIC: parking_lot::Mutex<String> = parking_lot::Mutex::new(String::new());

/// Called from the process panic hook.
pub fn note_panic(msg: &str) {
    if !msg.contains(crate::db::PANIC_PREFIX) {
        *LAST_PANIC.lock() = msg.to_string();
    }
}

pub fn last_panic() -> String {
    LAST_PANIC.lock().clone()
}

/// One property campaign: a deterministic function from an iteration seed to monitored runs.
pub trait Campaign {
    fn prop(&self) -> &'static str;
    fn iterate(&self, iter_seed: u64, rep: &mut ShardReport, deadline: Instant);
}

/// Weighted mixture of campaigns reported under one property.
pub struct Composite {
    pub prop: &'static str,
    pub parts: Vec<(u32, Box<dyn Campaign>)>,
}

impl Campaign for Composite {
    fn prop(&self) -> &'static str {
        self.prop
    }
    fn iterate(&self, iter_seed: u64, rep: &mut ShardReport, deadline: Instant) {
        let weights: Vec<u32> = self.parts.iter().map(|p| p.0).collect();
        let i = Rng::new(iter_seed ^ 0xC0DE).weighted(&weights);
        let before = rep.findings.len();
        self.parts[i].1.iterate(iter_seed, rep, deadline);
        for f in rep.findings[before..].iter_mut() {
            f.property = self.prop.to_string();
            if let Some(obj) = f.replay.as_object_mut() {
                obj.insert("property".into(), self.prop.into());
            }
        }
    }
}

/// Drive a campaign for `budget`.
pub fn run_campaign(c: &dyn Campaign, seed: u64, budget: Duration, max_iters: u64) -> ShardReport {
    let start = Instant::now();
    let deadline = start + budget;
    let mut rep = ShardReport::default();
    let mut r = Rng::new(seed);
    let mut iters = 0u64;
    while start.elapsed() < budget && iters < max_iters && rep.findings.len() < 6 {
        iters += 1;
        let iter_seed = r.next();
        // A panic that escapes an iteration (e.g. an `unreachable!` inside revm's bundle code hit
        // through ParallelState, or an assertion of the library reached by a component driver) is
        // an observation about the code under test, not a reason to lose the shard. Panics raised
        // by the harness' own code are reported as inconclusive instead.
        let before = rep.findings.len();
        let res = std::panic::catch_unwind(std::panic::AssertUnwindSafe(|| c.iterate(iter_seed, &mut rep, deadline)));
        if res.is_err() {
            crate::obs::obs().end_run();
            let msg = last_panic();
            rep.findings.truncate(before.max(rep.findings.len().min(before + 6)));
            if msg.contains("/verif/harness/src") || msg.contains("harness/src/") {
                rep.inconclusive.push(format!("{} iter_seed={iter_seed} harness panic: {}", c.prop(), msg.chars().take(300).collect::<String>()));
            } else {
                rep.evaluations += 1;
                rep.findings.push(Finding {
                    property: c.prop().to_string(),
                    monitor: "PANIC".into(),
                    owner: c.prop().to_string(),
                    signature: "PANIC:general".into(),
                    message: format!("the code under test panicked while driven by this campaign: {}", msg.chars().take(700).collect::<String>()),
                    replay: serde_json::json!({"property": c.prop(), "monitor": "PANIC", "message": msg, "iter_seed": iter_seed}),
                });
            }
        }
    }
    rep.wall_s = start.elapsed().as_secs_f64();
    rep
}

impl Campaign for SchedCampaign {
    fn prop(&self) -> &'static str {
        self.prop
    }
    fn iterate(&self, iter_seed: u64, rep: &mut ShardReport, _deadline: Instant) {
        let weights: Vec<u32> = self.families.iter().map(|f| f.weight).collect();
        let fi = Rng::new(iter_seed ^ 0xFA31).weighted(&weights);
        run_one_iteration(self, fi, iter_seed, rep);
    }
}

pub fn run_one_iteration(c: &SchedCampaign, fi: usize, iter_seed: u64, rep: &mut ShardReport) {
    let mut ir = Rng::new(iter_seed);
    let case = crate::world::generate(&c.families[fi].params, ir.next());
    let rc = pick_runcfg(&mut ir, case.txs.len(), &c.profiles, c.seq_pct);
    // a slow (fault-free) backing database in a quarter of the runs: cache-filling reads then span
    // commits of the accounts they read (values served are the same with or without latency)
    let mut plan = FaultPlan::default();
    if ir.chance(1, 4) {
        plan.default_latency_us = *ir.pick(&[20u64, 100, 400]);
        let slots = crate::run::probe_slots(&case);
        for a in crate::run::probe_addrs(&case) {
            if ir.chance(1, 3) {
                for s in &slots {
                    plan.latency_us.insert(crate::db::Key::Storage(a, *s), *ir.pick(&[300u64, 1000, 2500]));
                }
            }
        }
    }
    let reference = reference_for(&case, &plan, true, rc.with_reverts);
    let out = run_grevm(&case, &rc, &plan, None);
    let mut violations = Vec::new();
    if let Some(sv) = stall_violation(&out) {
        violations.push(sv);
    }
    if let Some(p) = &out.panic {
        violations.push(Violation { monitor: "PANIC", owner: "C05", message: format!("execute() panicked: {p}") });
    }
    let (tv, stats) = check_trace(&TraceInput {
        trace: &out.trace,
        n_txs: case.txs.len(),
        outcomes: &out.outcomes,
        reference: Some(&reference),
        errored: out.result.is_err(),
    });
    if out.stall.is_none() && out.panic.is_none() {
        violations.extend(check_equal(&reference, &out));
        violations.extend(tv);
    }
    let nontrivial = stats.nontrivial();
    let ctx = IterCtx { prop: c.prop, iter_seed, family_idx: fi };
    record(rep, &ctx, &case, &rc, &plan, &out, &stats, violations, nontrivial);
}
