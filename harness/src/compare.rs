//! Canonical forms and comparators. Order-insensitive where revm's containers are, exact elsewhere.

use grevm::TxExecutionOutcome;
use revm::Database;
use revm_database::{AccountRevert, BundleState};
use revm_primitives::{Address, B256, U256};
use revm_state::{Account, EvmState};
use std::collections::BTreeMap;

#[derive(Clone, Debug, PartialEq, Eq)]
pub enum DeltaKind {
    Deleted,
    Created,
    Updated,
}

#[derive(Clone, Debug, PartialEq, Eq)]
pub struct AcctDelta {
    pub kind: DeltaKind,
    pub balance: U256,
    pub nonce: u64,
    pub code_hash: B256,
    /// slot -> (original, present) for changed slots
    pub slots: BTreeMap<U256, (U256, U256)>,
}

/// Canonical per-transaction state delta: touched accounts only, classified exactly as the commit
/// layers classify journal output (selfdestructed > created > touched-empty > updated).
pub type CanonDelta = BTreeMap<Address, AcctDelta>;

fn classify(account: &Account) -> Option<DeltaKind> {
    if !account.is_touched() {
        None
    } else if account.is_selfdestructed() {
        Some(DeltaKind::Deleted)
    } else if account.is_created() {
        Some(DeltaKind::Created)
    } else if account.is_empty() {
        Some(DeltaKind::Deleted)
    } else {
        Some(DeltaKind::Updated)
    }
}

pub fn canon_delta(state: &EvmState) -> CanonDelta {
    let mut out = BTreeMap::new();
    for (address, account) in state.iter() {
        let Some(kind) = classify(account) else { continue };
        let mut slots = BTreeMap::new();
        if kind != DeltaKind::Deleted {
            for (slot, value) in account.storage.iter() {
                if value.is_changed() {
                    slots.insert(*slot, (value.original_value, value.present_value));
                }
            }
        }
        let (balance, nonce, code_hash) = if kind == DeltaKind::Deleted {
            (U256::ZERO, 0, B256::ZERO)
        } else {
            (account.info.balance, account.info.nonce, account.info.code_hash)
        };
        out.insert(*address, AcctDelta { kind, balance, nonce, code_hash, slots });
    }
    out
}

pub fn diff_delta(want: &CanonDelta, got: &CanonDelta) -> Option<String> {
    if want == got {
        return None;
    }
    for (a, w) in want {
        match got.get(a) {
            None => return Some(format!("account {a} missing from committed delta; expected {w:?}")),
            Some(g) if g != w => return Some(format!("account {a}: expected {w:?}, committed {g:?}")),
            _ => {}
        }
    }
    for (a, g) in got {
        if !want.contains_key(a) {
            return Some(format!("account {a} unexpectedly in committed delta: {g:?}"));
        }
    }
    Some("delta differs".into())
}

pub fn diff_outcomes(want: &[TxExecutionOutcome], got: &[TxExecutionOutcome]) -> Option<String> {
    for (i, (w, g)) in want.iter().zip(got.iter()).enumerate() {
        if w != g {
            return Some(format!("outcome[{i}] differs: expected {w:?}, got {g:?}"));
        }
    }
    if want.len() != got.len() {
        return Some(format!("outcome count differs: expected {}, got {}", want.len(), got.len()));
    }
    None
}

pub fn diff_bundle(want: &BundleState, got: &BundleState) -> Option<String> {
    let w: BTreeMap<_, _> = want.state.iter().collect();
    let g: BTreeMap<_, _> = got.state.iter().collect();
    for (a, wa) in &w {
        let Some(ga) = g.get(a) else {
            return Some(format!("bundle: account {a} missing; expected {wa:?}"));
        };
        if wa.info != ga.info {
            return Some(format!("bundle: {a} info expected {:?} got {:?}", wa.info, ga.info));
        }
        if wa.original_info != ga.original_info {
            return Some(format!(
                "bundle: {a} original_info expected {:?} got {:?}",
                wa.original_info, ga.original_info
            ));
        }
        if wa.status != ga.status {
            return Some(format!("bundle: {a} status expected {:?} got {:?}", wa.status, ga.status));
        }
        let ws: BTreeMap<_, _> = wa.storage.iter().collect();
        let gs: BTreeMap<_, _> = ga.storage.iter().collect();
        if ws != gs {
            return Some(format!("bundle: {a} storage expected {ws:?} got {gs:?}"));
        }
    }
    for a in g.keys() {
        if !w.contains_key(a) {
            return Some(format!("bundle: unexpected account {a}: {:?}", g[a]));
        }
    }
    let wc: BTreeMap<_, _> = want.contracts.iter().map(|(k, v)| (*k, v.original_bytes())).collect();
    let gc: BTreeMap<_, _> = got.contracts.iter().map(|(k, v)| (*k, v.original_bytes())).collect();
    if wc != gc {
        return Some(format!(
            "bundle: contracts differ: expected {:?} got {:?}",
            wc.keys().collect::<Vec<_>>(),
            gc.keys().collect::<Vec<_>>()
        ));
    }
    if want.reverts.len() != got.reverts.len() {
        return Some(format!(
            "bundle: revert block count expected {} got {}",
            want.reverts.len(),
            got.reverts.len()
        ));
    }
    for (i, (wr, gr)) in want.reverts.iter().zip(got.reverts.iter()).enumerate() {
        let wm: BTreeMap<&Address, &AccountRevert> = wr.iter().map(|(a, r)| (a, r)).collect();
        let gm: BTreeMap<&Address, &AccountRevert> = gr.iter().map(|(a, r)| (a, r)).collect();
        if wr.len() != gr.len() || wm.len() != wr.len() || gm.len() != gr.len() {
            return Some(format!(
                "bundle: reverts[{i}] entry count expected {} got {} (distinct {} / {})",
                wr.len(),
                gr.len(),
                wm.len(),
                gm.len()
            ));
        }
        for (a, w1) in &wm {
            match gm.get(a) {
                None => return Some(format!("bundle: reverts[{i}] missing {a}")),
                Some(g1) if g1 != w1 => {
                    return Some(format!("bundle: reverts[{i}] {a} expected {w1:?} got {g1:?}"));
                }
                _ => {}
            }
        }
    }
    if want.state_size != got.state_size {
        return Some(format!("bundle: state_size expected {} got {}", want.state_size, got.state_size));
    }
    if want.reverts_size != got.reverts_size {
        return Some(format!(
            "bundle: reverts_size expected {} got {}",
            want.reverts_size, got.reverts_size
        ));
    }
    None
}

/// Values read back through a database interface for a fixed probe set.
#[derive(Clone, Debug, PartialEq, Eq, Default)]
pub struct Readback {
    pub accounts: BTreeMap<Address, Result<Option<(U256, u64, B256)>, String>>,
    pub slots: BTreeMap<(Address, U256), Result<U256, String>>,
    pub code: BTreeMap<B256, Result<Vec<u8>, String>>,
}

/// Reads go through the EVM-facing `Database` interface (the one the next block or a sequential
/// replay would use). revm's `State::storage_ref` is *not* used as the oracle: for a destroyed
/// account it falls through to the backing database while `State::storage` returns zero, i.e.
/// revm's own two interfaces disagree there; the mutable interface is the one execution uses.
pub fn readback<DB: Database>(db: &mut DB, addrs: &[Address], slots: &[U256]) -> Readback
where
    DB::Error: std::fmt::Display,
{
    let mut rb = Readback::default();
    for a in addrs {
        let info = db.basic(*a).map_err(|e| e.to_string());
        if let Ok(Some(i)) = &info &&
            i.code_hash != revm_primitives::KECCAK_EMPTY &&
            i.code_hash != B256::ZERO
        {
            // Effective code as execution would obtain it: carried by the account if present,
            // otherwise looked up by hash.
            let code = match &i.code {
                Some(c) if !c.is_empty() => Ok(c.original_bytes().to_vec()),
                _ => db
                    .code_by_hash(i.code_hash)
                    .map(|c| c.original_bytes().to_vec())
                    .map_err(|e| e.to_string()),
            };
            rb.code.insert(i.code_hash, code);
        }
        rb.accounts.insert(*a, info.map(|o| o.map(|i| (i.balance, i.nonce, i.code_hash))));
        for s in slots {
            rb.slots.insert((*a, *s), db.storage(*a, *s).map_err(|e| e.to_string()));
        }
    }
    rb
}

pub fn diff_readback(want: &Readback, got: &Readback) -> Option<String> {
    for (a, w) in &want.accounts {
        let g = got.accounts.get(a);
        if g != Some(w) {
            return Some(format!("readback: basic({a}) expected {w:?} got {g:?}"));
        }
    }
    for (k, w) in &want.slots {
        let g = got.slots.get(k);
        if g != Some(w) {
            return Some(format!("readback: storage({}, {}) expected {w:?} got {g:?}", k.0, k.1));
        }
    }
    for (h, w) in &want.code {
        let g = got.code.get(h);
        if g != Some(w) {
            return Some(format!("readback: code({h}) expected {w:?} got {g:?}"));
        }
    }
    None
}
