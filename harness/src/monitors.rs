//! Offline monitors over one run's event trace. All are deterministic functions of the trace, the
//! public results and the reference run.

use crate::{
    obs::{Ev, Rec},
    reference::RefRun,
    rng::Fnv,
};
use grevm::{
    TxExecutionOutcome,
    verif::{BeneficiaryEffectKind, CommitPath, Event, ExecOutcome, FinalityBlock, Loc, ReadOrigin},
};
use std::collections::{BTreeMap, HashMap};

#[derive(Clone, Debug)]
pub struct Violation {
    pub monitor: &'static str,
    /// Property that owns the monitor.
    pub owner: &'static str,
    pub message: String,
}

fn v(monitor: &'static str, owner: &'static str, message: String) -> Violation {
    Violation { monitor, owner, message }
}

/// What a trace showed; used for evidence and coverage gating.
#[derive(Clone, Debug, Default)]
pub struct TraceStats {
    pub events: u64,
    pub exec_attempts: u64,
    pub reexecutions: u64,
    pub validations: u64,
    pub validation_conflicts: u64,
    pub rewinds: u64,
    pub rewinds_new_write: u64,
    pub finality_blocked_cursor: u64,
    pub finality_blocked_status: u64,
    pub finality_blocked_ts: u64,
    pub validation_claims_dropped: u64,
    pub dup_exec_claims: u64,
    pub dup_exec_claims_past: u64,
    pub parallel_commits: u64,
    pub sequential_commits: u64,
    pub sequential_skips: u64,
    pub nonce_fallbacks: u64,
    pub aborts: u64,
    pub abort_kinds: BTreeMap<String, u64>,
    pub mv_reads_committed: u64,
    pub ben_reads_committed: u64,
    pub storage_reads_committed: u64,
    pub dep_added: u64,
    pub dep_cleared_by_remove: u64,
    pub dep_stale_edges: u64,
    pub dep_commit_release: u64,
    pub dep_key_barrier: u64,
    pub dep_key_immediate: u64,
    pub dep_handoffs: u64,
    pub parks: u64,
    pub park_timeouts: u64,
    pub notifies: u64,
    pub notifies_before_register: u64,
    pub err_blocked: u64,
    pub err_invalid: u64,
    pub err_fatal: u64,
    pub stale_attempt_errors: u64,
    pub head_attempts: u64,
    pub dep_reoffers_without_blocker: u64,
    pub validation_conflicts_without_dependency: u64,
    pub head_attempts_blocked: u64,
    pub signature: u64,
    pub threads_started: u64,
    pub threads_ended: u64,
}

impl TraceStats {
    pub fn nontrivial(&self) -> bool {
        self.reexecutions > 0 || self.mv_reads_committed > 0 || self.ben_reads_committed > 0
    }
    pub fn add(&mut self, o: &TraceStats) {
        macro_rules! acc { ($($f:ident),*) => { $( self.$f += o.$f; )* } }
        acc!(
            events, exec_attempts, reexecutions, validations, validation_conflicts, rewinds,
            rewinds_new_write, finality_blocked_cursor, finality_blocked_status, finality_blocked_ts,
            validation_claims_dropped, dup_exec_claims, dup_exec_claims_past, parallel_commits,
            sequential_commits, sequential_skips, nonce_fallbacks, aborts, mv_reads_committed,
            ben_reads_committed, storage_reads_committed, dep_added, dep_cleared_by_remove,
            dep_stale_edges, dep_commit_release, dep_key_barrier, dep_key_immediate, dep_handoffs,
            parks, park_timeouts, notifies, notifies_before_register, err_blocked, err_invalid,
            err_fatal, stale_attempt_errors, head_attempts, head_attempts_blocked, dep_reoffers_without_blocker, validation_conflicts_without_dependency, threads_started, threads_ended
        );
        for (k, n) in &o.abort_kinds {
            *self.abort_kinds.entry(k.clone()).or_insert(0) += n;
        }
    }
    pub fn to_json(&self) -> serde_json::Value {
        serde_json::json!({
            "events": self.events,
            "exec_attempts": self.exec_attempts,
            "reexecutions": self.reexecutions,
            "validations": self.validations,
            "validation_conflicts": self.validation_conflicts,
            "rewinds": self.rewinds,
            "rewinds_after_new_write_location": self.rewinds_new_write,
            "finality_refused_by_cursor": self.finality_blocked_cursor,
            "finality_refused_by_status": self.finality_blocked_status,
            "finality_refused_by_timestamp": self.finality_blocked_ts,
            "validation_claims_dropped_by_status": self.validation_claims_dropped,
            "duplicate_exec_claims_while_executing": self.dup_exec_claims,
            "duplicate_exec_claims_past_execution": self.dup_exec_claims_past,
            "parallel_commits": self.parallel_commits,
            "sequential_commits": self.sequential_commits,
            "sequential_skips": self.sequential_skips,
            "commit_nonce_fallbacks": self.nonce_fallbacks,
            "aborts": self.aborts,
            "abort_kinds": self.abort_kinds,
            "committed_reads_from_mv_memory": self.mv_reads_committed,
            "committed_reads_from_beneficiary_history": self.ben_reads_committed,
            "committed_reads_from_base_state": self.storage_reads_committed,
            "dep_edges_added": self.dep_added,
            "dep_released_by_remove": self.dep_cleared_by_remove,
            "dep_reoffers_without_blocker": self.dep_reoffers_without_blocker,
            "validation_conflicts_without_dependency": self.validation_conflicts_without_dependency,
            "dep_stale_reverse_edges_ignored": self.dep_stale_edges,
            "dep_released_by_commit": self.dep_commit_release,
            "dep_commit_barriers_installed": self.dep_key_barrier,
            "dep_key_tx_immediate_reoffers": self.dep_key_immediate,
            "dep_direct_handoffs": self.dep_handoffs,
            "coordinator_parks": self.parks,
            "coordinator_park_timeouts": self.park_timeouts,
            "notifies": self.notifies,
            "exec_errors_while_blocked": self.err_blocked,
            "exec_errors_invalid_tx": self.err_invalid,
            "exec_errors_fatal": self.err_fatal,
            "exec_errors_from_attempts_not_started_at_commit_head": self.stale_attempt_errors,
            "exec_attempts_started_at_commit_head": self.head_attempts,
            "threads_started": self.threads_started,
            "threads_ended": self.threads_ended,
        })
    }
}

pub struct TraceInput<'a> {
    pub trace: &'a [Rec],
    pub n_txs: usize,
    /// Final outcomes returned by `take_result_and_state`.
    pub outcomes: &'a [TxExecutionOutcome],
    /// Reference run, when stock revm is a valid reference for this configuration.
    pub reference: Option<&'a RefRun>,
    /// Whether the run returned an error (then outcomes are a prefix).
    pub errored: bool,
}

pub fn check_trace(inp: &TraceInput<'_>) -> (Vec<Violation>, TraceStats) {
    let mut out = Vec::new();
    let mut st = TraceStats::default();
    let mut sig = Fnv::default();
    st.events = inp.trace.len() as u64;

    // ---- shadow state -------------------------------------------------------------------------
    // VER
    let mut committed_inc: Vec<Option<usize>> = vec![None; inp.n_txs];
    let mut ben_effect: Vec<BeneficiaryEffectKind> = vec![BeneficiaryEffectKind::Unchanged; inp.n_txs];
    let mut last_writer: HashMap<Loc, (usize, usize)> = HashMap::new();
    // STEP
    let mut next_commit = 0usize;
    let mut committed_steps: Vec<TxExecutionOutcome> = Vec::new();
    let mut pending_meta: Option<usize> = None;
    let mut finality_published = 0usize;
    let mut commit_published = 0usize;
    // TS
    // per tx: stamp of the ValidationBegin of the most recent *successful* validation
    let mut last_ok_validation_begin: Vec<Option<u64>> = vec![None; inp.n_txs];
    let mut open_validation_begin: HashMap<(usize, usize), u64> = HashMap::new();
    let mut rewinds: Vec<(u64, usize)> = Vec::new(); // (stamp, index)
    let mut next_finality = 0usize;
    let mut final_seen = vec![false; inp.n_txs];
    let mut exec_inc: Vec<usize> = vec![0; inp.n_txs];
    let mut begin_at_head: HashMap<(usize, usize), bool> = HashMap::new();
    let mut registered: std::collections::HashSet<usize> = Default::default();
    let mut last_failed_validation: HashMap<u32, usize> = HashMap::new();

    for rec in inp.trace {
        match &rec.ev {
            Ev::G(e) => match *e {
                Event::ThreadStart(_) => st.threads_started += 1,
                Event::ThreadEnd(_) => st.threads_ended += 1,
                Event::ExecTask { txid, status, incarnation } => match status {
                    0 | 5 => {
                        exec_inc[txid] = incarnation + 1;
                    }
                    1 => st.dup_exec_claims += 1,
                    _ => st.dup_exec_claims_past += 1,
                },
                Event::ExecBegin { txid, incarnation, at_commit_head } => {
                    st.exec_attempts += 1;
                    if incarnation > 1 {
                        st.reexecutions += 1;
                    }
                    begin_at_head.insert((txid, incarnation), at_commit_head);
                    if final_seen.get(txid).copied().unwrap_or(false) {
                        out.push(v("TS", "C02", format!("tx {txid} executed (incarnation {incarnation}) after it became final")));
                    }
                }
                Event::ExecEnd { txid, incarnation, outcome, new_locations } => {
                    sig.add(1);
                    sig.add(txid as u64);
                    sig.add(incarnation as u64);
                    sig.add(outcome as u64);
                    // HEAD: an attempt that started with every predecessor committed reads only
                    // final data: no estimate may be left below the committed prefix, so it can
                    // neither be blocked nor (below) fail validation. A stale estimate there makes
                    // the head re-execute forever (livelock) or revises a committed effect.
                    if matches!(outcome, ExecOutcome::OkBlocked | ExecOutcome::ErrBlocked) &&
                        begin_at_head.get(&(txid, incarnation)) == Some(&true)
                    {
                        st.head_attempts_blocked += 1;
                        out.push(v(
                            "HEAD",
                            "C05",
                            format!(
                                "tx {txid} (incarnation {incarnation}) started with all predecessors committed but was blocked by an estimate: a stale speculative version survives below the committed prefix"
                            ),
                        ));
                    }
                    if begin_at_head.get(&(txid, incarnation)) == Some(&true) {
                        st.head_attempts += 1;
                    }
                    match outcome {
                        ExecOutcome::ErrBlocked => st.err_blocked += 1,
                        ExecOutcome::ErrInvalid => st.err_invalid += 1,
                        ExecOutcome::ErrFatal => st.err_fatal += 1,
                        _ => {}
                    }
                    if matches!(outcome, ExecOutcome::ErrInvalid | ExecOutcome::ErrFatal) &&
                        begin_at_head.get(&(txid, incarnation)) == Some(&false)
                    {
                        st.stale_attempt_errors += 1;
                    }
                    if new_locations && incarnation > 1 && matches!(outcome, ExecOutcome::Ok) {
                        st.rewinds_new_write += 1;
                    }
                }
                Event::ValidationClaim { accepted, .. } => {
                    if !accepted {
                        st.validation_claims_dropped += 1;
                    }
                }
                Event::ValidationBegin { txid, incarnation } => {
                    open_validation_begin.insert((txid, incarnation), rec.seq);
                }
                Event::ValidationEnd { txid, incarnation, ok } => {
                    st.validations += 1;
                    sig.add(2);
                    sig.add(txid as u64);
                    sig.add(incarnation as u64);
                    sig.add(ok as u64);
                    let begin = open_validation_begin.remove(&(txid, incarnation));
                    if ok {
                        last_ok_validation_begin[txid] = begin;
                    } else {
                        st.validation_conflicts += 1;
                        last_failed_validation.insert(rec.thread, txid);
                        last_ok_validation_begin[txid] = None;
                        if begin_at_head.get(&(txid, incarnation)) == Some(&true) {
                            out.push(v(
                                "HEAD",
                                "C02",
                                format!(
                                    "validation of tx {txid} (incarnation {incarnation}) failed although the attempt started with all predecessors committed: what it read below the committed prefix changed afterwards"
                                ),
                            ));
                        }
                    }
                    if final_seen[txid] {
                        out.push(v("TS", "C02", format!("tx {txid} validated after it became final")));
                    }
                }
                Event::Rewind { index } => {
                    st.rewinds += 1;
                    sig.add(3);
                    sig.add(index as u64);
                    rewinds.push((rec.seq, index));
                    if index < inp.n_txs && final_seen[index] {
                        out.push(v(
                            "TS",
                            "C15",
                            format!("validation rewound to {index} after transaction {index} became final"),
                        ));
                    }
                }
                Event::FinalityBlocked { why, .. } => match why {
                    FinalityBlock::Cursor => st.finality_blocked_cursor += 1,
                    FinalityBlock::Status => st.finality_blocked_status += 1,
                    FinalityBlock::Timestamp => st.finality_blocked_ts += 1,
                },
                Event::Finality { idx, incarnation } => {
                    sig.add(4);
                    sig.add(idx as u64);
                    sig.add(incarnation as u64);
                    if idx != next_finality {
                        out.push(v("TS", "C02", format!("finality of {idx} but next contiguous index is {next_finality}")));
                    }
                    next_finality = idx + 1;
                    if idx < inp.n_txs {
                        final_seen[idx] = true;
                        if exec_inc[idx] != incarnation {
                            out.push(v(
                                "TS",
                                "C02",
                                format!("tx {idx} finalized at incarnation {incarnation} but last claimed incarnation is {}", exec_inc[idx]),
                            ));
                        }
                        match last_ok_validation_begin[idx] {
                            None => out.push(v(
                                "TS",
                                "C15",
                                format!("tx {idx} became final without a successful validation of its current result"),
                            )),
                            Some(b) => {
                                // A rewind covering idx that began after this validation captured its
                                // timestamp has a newer timestamp: finality must have been refused.
                                if let Some((s, k)) =
                                    rewinds.iter().find(|(s, k)| *s > b && *k <= idx && *s < rec.seq)
                                {
                                    out.push(v(
                                        "TS",
                                        "C15",
                                        format!(
                                            "tx {idx} (incarnation {incarnation}) became final on a validation (stamp {b}) that predates rewind to {k} (stamp {s})"
                                        ),
                                    ));
                                }
                            }
                        }
                    }
                }
                Event::FinalityPublished { idx } => {
                    if idx < finality_published {
                        out.push(v("TS", "C02", format!("finality cursor moved backwards {finality_published} -> {idx}")));
                    }
                    finality_published = idx;
                }
                Event::CommitTake { txid } => {
                    // (`Finality` is emitted under the tx lock before the cursor is published;
                    // `FinalityPublished` only after the store, so it cannot be used here.)
                    if txid < inp.n_txs && !final_seen[txid] {
                        out.push(v("STEP", "C02", format!("commit took tx {txid} before it became final")));
                    }
                }
                Event::CommitNonceFallback { .. } => st.nonce_fallbacks += 1,
                Event::CommitPublished { idx } => {
                    sig.add(5);
                    sig.add(idx as u64);
                    if idx != commit_published + 1 {
                        out.push(v("STEP", "C02", format!("commit cursor published {idx} after {commit_published}")));
                    }
                    if idx != next_commit {
                        out.push(v("STEP", "C02", format!("commit cursor published {idx} but {next_commit} transactions were applied")));
                    }
                    commit_published = idx;
                }
                Event::Abort { kind, first, .. } => {
                    sig.add(6);
                    sig.add(kind as u64);
                    if first {
                        st.aborts += 1;
                        *st.abort_kinds.entry(format!("{kind:?}")).or_insert(0) += 1;
                    }
                }
                Event::DepAdd { tx, dep, .. } => {
                    if dep.is_some() {
                        st.dep_added += 1;
                    } else {
                        st.dep_reoffers_without_blocker += 1;
                        if last_failed_validation.get(&rec.thread) == Some(&tx) {
                            st.validation_conflicts_without_dependency += 1;
                        }
                    }
                    last_failed_validation.remove(&rec.thread);
                }
                Event::DepCleared { tx, by, .. } => {
                    st.dep_cleared_by_remove += 1;
                    sig.add(7);
                    sig.add(tx as u64);
                    sig.add(by as u64);
                }
                Event::DepStaleEdge { .. } => st.dep_stale_edges += 1,
                Event::DepCommitRelease { previous, onboard, .. } => {
                    if previous.is_some() && onboard {
                        st.dep_commit_release += 1;
                    }
                }
                Event::DepKey { barrier, .. } => {
                    if barrier {
                        st.dep_key_barrier += 1;
                    } else {
                        st.dep_key_immediate += 1;
                    }
                }
                Event::DepHandoff { .. } => st.dep_handoffs += 1,
                Event::Register { slot } => {
                    registered.insert(slot);
                }
                Event::Notify { slot, had_thread } => {
                    st.notifies += 1;
                    if !had_thread || !registered.contains(&slot) {
                        st.notifies_before_register += 1;
                    }
                }
                Event::ParkEnter { .. } => st.parks += 1,
                Event::ParkExit { timed_out, .. } => {
                    if timed_out {
                        st.park_timeouts += 1;
                    }
                }
                _ => {}
            },
            Ev::Meta(meta) => {
                let i = meta.txid;
                if i != next_commit {
                    out.push(v("STEP", "C02", format!("commit loop took tx {i} but next uncommitted index is {next_commit}")));
                }
                pending_meta = Some(i);
                // ---- VER -----------------------------------------------------------------------
                for (loc, origin) in &meta.read_set {
                    match origin {
                        ReadOrigin::Mv(t, n) => {
                            st.mv_reads_committed += 1;
                            match last_writer.get(loc) {
                                Some(&(wt, wn)) if wt == *t && wn == *n => {}
                                other => out.push(v(
                                    "VER",
                                    "C02",
                                    format!(
                                        "tx {i} (incarnation {}) committed with a read of {loc:?} from version ({t},{n}) but the committed version of the last preceding writer is {other:?}",
                                        meta.incarnation
                                    ),
                                )),
                            }
                        }
                        ReadOrigin::Storage => {
                            st.storage_reads_committed += 1;
                            if let Some(w) = last_writer.get(loc) {
                                out.push(v(
                                    "VER",
                                    "C02",
                                    format!(
                                        "tx {i} (incarnation {}) committed with a base-state read of {loc:?} although committed tx {} (incarnation {}) wrote it earlier in the block",
                                        meta.incarnation, w.0, w.1
                                    ),
                                ));
                            }
                        }
                        ReadOrigin::Beneficiary(origins) => {
                            if !origins.is_empty() {
                                st.ben_reads_committed += 1;
                            }
                            let mut want = Vec::new();
                            for w in (0..i).rev() {
                                want.push((w, committed_inc[w].unwrap_or(usize::MAX)));
                                if ben_effect[w] == BeneficiaryEffectKind::Snapshot {
                                    break;
                                }
                            }
                            if &want != origins {
                                out.push(v(
                                    "VER",
                                    "C07",
                                    format!(
                                        "tx {i} committed with beneficiary read chain {origins:?} but the committed chain is {want:?}"
                                    ),
                                ));
                            }
                        }
                    }
                }
                if i < inp.n_txs {
                    committed_inc[i] = Some(meta.incarnation);
                    ben_effect[i] = meta.beneficiary_effect;
                    if exec_inc[i] != meta.incarnation {
                        out.push(v("VER", "C02", format!("tx {i} committed at incarnation {} but last claimed incarnation is {}", meta.incarnation, exec_inc[i])));
                    }
                    if !final_seen[i] {
                        out.push(v("STEP", "C02", format!("tx {i} committed before it became final")));
                    }
                }
                for loc in &meta.write_set {
                    last_writer.insert(loc.clone(), (i, meta.incarnation));
                }
            }
            Ev::State { path, txid, result, delta } => {
                let i = *txid;
                if i != next_commit {
                    out.push(v(
                        "STEP",
                        "C02",
                        format!("state of tx {i} applied ({path:?}) but next uncommitted index is {next_commit} (out of order or applied twice)"),
                    ));
                }
                match path {
                    CommitPath::Parallel => {
                        st.parallel_commits += 1;
                        if pending_meta.take() != Some(i) {
                            out.push(v("STEP", "C02", format!("parallel commit of tx {i} without matching commit-loop take")));
                        }
                    }
                    CommitPath::Sequential => st.sequential_commits += 1,
                }
                if let Some(r) = inp.reference {
                    match r.outcomes.get(i) {
                        Some(TxExecutionOutcome::Executed(want)) => {
                            if want != result {
                                out.push(v(
                                    "STEP",
                                    "C02",
                                    format!("commit step {i} ({path:?}) result differs from in-order execution: expected {want:?}, committed {result:?}"),
                                ));
                            }
                            if let Some(Some(wd)) = r.deltas.get(i) &&
                                let Some(d) = crate::compare::diff_delta(wd, delta)
                            {
                                out.push(v("STEP", "C02", format!("commit step {i} ({path:?}) state delta differs from in-order execution: {d}")));
                            }
                        }
                        Some(TxExecutionOutcome::Skipped(e)) => out.push(v(
                            "STEP",
                            "C03",
                            format!("tx {i} was committed ({path:?}) but in-order validation skips it with {e:?}"),
                        )),
                        None => {
                            if r.error.as_ref().is_none_or(|(k, _)| i >= *k) {
                                out.push(v("STEP", "C04", format!("tx {i} committed ({path:?}) although in-order execution stops at {:?}", r.error)));
                            }
                        }
                    }
                }
                committed_steps.push(TxExecutionOutcome::Executed(result.clone()));
                next_commit = i + 1;
            }
            Ev::Skip { txid, error } => {
                let i = *txid;
                st.sequential_skips += 1;
                if i != next_commit {
                    out.push(v("STEP", "C02", format!("tx {i} skipped but next uncommitted index is {next_commit}")));
                }
                if let Some(r) = inp.reference {
                    match r.outcomes.get(i) {
                        Some(TxExecutionOutcome::Skipped(want)) if want == error => {}
                        other => out.push(v(
                            "STEP",
                            "C03",
                            format!("tx {i} skipped with {error:?} but in-order execution gives {other:?}"),
                        )),
                    }
                }
                committed_steps.push(TxExecutionOutcome::Skipped(error.clone()));
                next_commit = i + 1;
            }
        }
    }

    // no-revision: what was returned equals what was committed, step by step
    if committed_steps.len() != inp.outcomes.len() {
        out.push(v(
            "STEP",
            "C02",
            format!("{} commit steps were applied but {} outcomes were returned", committed_steps.len(), inp.outcomes.len()),
        ));
    }
    for (i, (c, o)) in committed_steps.iter().zip(inp.outcomes.iter()).enumerate() {
        if c != o {
            out.push(v("STEP", "C02", format!("returned outcome {i} differs from what was committed at step {i}")));
            break;
        }
    }
    if !inp.errored && inp.outcomes.len() != inp.n_txs {
        out.push(v("STEP", "C01", format!("execution succeeded with {} outcomes for {} transactions", inp.outcomes.len(), inp.n_txs)));
    }
    if st.park_timeouts > 0 {
        out.push(v(
            "STALL",
            "C17",
            format!("{} coordinator park(s) were ended by the (timeout-free) stall timer: a waiter slept through a notification it needed", st.park_timeouts),
        ));
    }
    if st.threads_started != st.threads_ended {
        out.push(v("PANIC", "C05", format!("{} scheduler threads started but {} ended", st.threads_started, st.threads_ended)));
    }
    st.signature = sig.0;
    out.truncate(8);
    (out, st)
}
