//! Process-wide observer: implements grevm's `verif::Hooks`.
//!
//! * records every event into per-thread buffers stamped by one relaxed global counter (a total
//!   order consistent with happens-before between hook sites, without adding synchronisation
//!   between scheduler threads),
//! * implements the perturbation engine at schedule points (profiles + directors),
//! * shadows the coordinator park timeout so lost wake-ups become stable hangs.

use crate::compare::{CanonDelta, canon_delta};
use grevm::verif::{self, CommitMeta, CommitPath, Event, Hooks, Point, Role};
use parking_lot::Mutex;
use revm_context::result::{ExecutionResult, InvalidTransaction};
use revm_state::EvmState;
use std::{
    cell::Cell,
    sync::{
        OnceLock,
        atomic::{AtomicBool, AtomicU32, AtomicU64, AtomicUsize, Ordering::Relaxed},
    },
    time::{Duration, Instant},
};

#[derive(Clone, Debug)]
pub enum Ev {
    G(Event),
    Meta(CommitMeta),
    State { path: CommitPath, txid: usize, result: ExecutionResult, delta: CanonDelta },
    Skip { txid: usize, error: InvalidTransaction },
}

#[derive(Clone, Debug)]
pub struct Rec {
    pub seq: u64,
    pub thread: u32,
    /// 0 = harness thread, 1 worker, 2 finality, 3 commit
    pub role: u8,
    pub ev: Ev,
}

const NBUF: usize = 256;
pub const NPOINT: usize = 48;
pub const MAX_TX: usize = 96;

/// Point classes used by `focus` profiles.
#[derive(Clone, Copy, Debug, PartialEq, Eq, Hash)]
#[repr(u8)]
pub enum Class {
    ClaimLock,
    ValidateScan,
    ExecPublish,
    EstimateRewind,
    Finality,
    Commit,
    Dep,
    Wait,
    Cache,
    ExecStart,
    Abort,
    Cursor,
    Mv,
    Spin,
}

pub const CLASSES: &[Class] = &[
    Class::ClaimLock,
    Class::ValidateScan,
    Class::ExecPublish,
    Class::EstimateRewind,
    Class::Finality,
    Class::Commit,
    Class::Dep,
    Class::Wait,
    Class::Cache,
    Class::ExecStart,
    Class::Abort,
    Class::Cursor,
    Class::Mv,
];

pub fn class_of(p: Point) -> Class {
    use Point::*;
    match p {
        NextLoop => Class::Spin,
        ValidationClaimed => Class::ClaimLock,
        ValidateEntry | ValidateAfterTimestamp | ValidateScanItem | ValidateAfterScan => {
            Class::ValidateScan
        }
        ExecAfterRun | ExecBeforeStatus | ExecAfterStatus | MvBetweenPublish => Class::ExecPublish,
        ValidateAfterEstimate | RewindAfterTick | RewindAfterLowerTs | ValidateBeforeNotify => {
            Class::EstimateRewind
        }
        FinalityCandidateEntry | FinalityCandidateLocked | FinalityBeforePublish |
        FinalityBeforeNotify => Class::Finality,
        CommitBeforeTake | CommitBeforePublish | CommitBeforeRelease | CommitApplyAccount => {
            Class::Commit
        }
        DepNextAfterFetch | DepRemoveBetweenLocks | DepAddBetweenLocks | DepKeyAfterRead => {
            Class::Dep
        }
        WaitAfterFirstCheck | WaitBeforePark | NotifyReturn => Class::Wait,
        CacheAfterFetchBasic | CacheAfterFetchStorage | CacheAfterFetchCode => Class::Cache,
        ExecBeforeRun | ExecutionClaimed | RunOnceBeforeCas => Class::ExecStart,
        AbortAfterReason | CancelAfterStore | ExecErrBeforeKey => Class::Abort,
        CursorClaimBeforeCas | FrontierAfterStore => Class::Cursor,
        MvLookup => Class::Mv,
    }
}

/// Perturbation profile of one run.
#[derive(Clone, Debug, PartialEq, Eq)]
pub struct Profile {
    pub name: String,
    /// probability (per mille) of a delay at an ordinary point
    pub base_pm: u32,
    /// max delay in microseconds at an ordinary point
    pub base_us: u32,
    /// focused class, probability per mille and max delay there
    pub focus: Option<(Class, u32, u32)>,
    /// director bitmask (see `D_*`)
    pub directors: u32,
    /// whether coordinator parks are timeout-free
    pub timeout_free: bool,
}

pub const D_CLAIM_LOCK: u32 = 1; // hold a validation claimer until finality examined that idx
pub const D_VALIDATE_SCAN: u32 = 2; // hold a validator mid-scan until a rewind happens
pub const D_EXEC_PUBLISH: u32 = 4; // hold an executor after publication until a later validation ends
pub const D_COMMIT_HEAD: u32 = 8; // stagger: hold exec start of k>0 until commit(0) published
pub const D_COORD: u32 = 16; // hold coordinators between publish and notify until a worker spins
pub const D_WAIT: u32 = 32; // hold a waiter before park until a notify is issued
pub const D_CACHE: u32 = 64; // hold a cache filler between fetch and insert until a commit is published
pub const D_AFTER_NOTIFY: u32 = 256; // hold a notifier after notify() until the waiter parks again
pub const D_FINISH_AT_HEAD: u32 = 128;
pub const D_GATE: u32 = 1024; // hold the first execution of some transaction k >= 2 until a lower transaction has been re-executed (frontier stays low: later transactions execute early and are validated late)
pub const D_ESTIMATE_REWIND: u32 = 512; // hold a failing validator / a rewinder between its steps until another validation ends // hold a finished attempt until the commit boundary reaches its tx

impl Profile {
    pub fn quiet() -> Self {
        Self { name: "quiet".into(), base_pm: 0, base_us: 0, focus: None, directors: 0, timeout_free: true }
    }
    pub fn light() -> Self {
        Self { name: "light".into(), base_pm: 20, base_us: 40, focus: None, directors: 0, timeout_free: true }
    }
    pub fn chaos() -> Self {
        Self { name: "chaos".into(), base_pm: 100, base_us: 200, focus: None, directors: 0, timeout_free: true }
    }
    pub fn focus(c: Class, pm: u32, us: u32) -> Self {
        Self {
            name: format!("focus:{c:?}"),
            base_pm: 10,
            base_us: 30,
            focus: Some((c, pm, us)),
            directors: 0,
            timeout_free: true,
        }
    }
    pub fn director(bits: u32, name: &str) -> Self {
        Self { name: format!("director:{name}"), base_pm: 10, base_us: 30, focus: None, directors: bits, timeout_free: true }
    }
}

pub struct Obs {
    recording: AtomicBool,
    seq: AtomicU64,
    bufs: Vec<Mutex<Vec<Rec>>>,
    next_thread: AtomicU32,
    // perturbation
    base_pm: AtomicU32,
    base_us: AtomicU32,
    focus_class: AtomicU32, // Class as u32, u32::MAX = none
    focus_pm: AtomicU32,
    focus_us: AtomicU32,
    directors: AtomicU32,
    timeout_free: AtomicBool,
    run_seed: AtomicU64,
    miri: bool,
    // online observation for directors and the stall detector
    pub in_delay: AtomicU64,
    pub spins: AtomicU64,
    pub points: AtomicU64,
    pub parked: [AtomicU64; 4], // by role: number of threads currently inside park
    pub in_exec: AtomicU64,
    /// execution attempts begun in this run (livelock cut-off of the watchdog)
    pub exec_begins: AtomicU64,
    /// number of finality + commit publications in this run
    pub progress_marks: AtomicU64,
    /// live scheduler threads by role (index 1 worker, 2 finality, 3 commit)
    pub alive: [AtomicU64; 4],
    /// scheduler threads ever started in this run, by role
    pub started: [AtomicU64; 4],
    /// wait slot registered by the coordinator of each role (0 = none)
    pub slot_of_role: [AtomicUsize; 4],
    /// whether a notify() that found the registered thread was issued to the coordinator's slot
    /// since it last entered park (it will then wake up - unless notify() itself is broken)
    pub notified_since_park: [AtomicBool; 4],
    /// per-thread liveness slots for the stall detector (index = observer thread id mod NBUF)
    pub tslots: Vec<ThreadSlot>,
    fin_examined: Vec<AtomicU64>,
    rewinds: AtomicU64,
    validations_done: AtomicU64,
    commit_published: AtomicUsize,
    notifies: AtomicU64,
    reexec_ends: AtomicU64,
    park_enters: AtomicU64,
    pub holds: AtomicU64,
    pub hold_hits: AtomicU64,
    pub delays: AtomicU64,
}

/// What one scheduler thread is doing, as far as the stall detector needs to know.
pub struct ThreadSlot {
    /// 0 = not a live scheduler thread, else the role code
    pub role: AtomicU32,
    pub parked: AtomicBool,
    /// iterations of the `next()` spin loop by this thread
    pub spins: AtomicU64,
}

thread_local! {
    static TL_THREAD: Cell<u32> = const { Cell::new(u32::MAX) };
    static TL_ROLE: Cell<u8> = const { Cell::new(0) };
    static TL_RNG: Cell<u64> = const { Cell::new(0) };
}

static OBS: OnceLock<Obs> = OnceLock::new();

/// Install (once) and return the process-wide observer.
pub fn obs() -> &'static Obs {
    let o = OBS.get_or_init(|| Obs {
        recording: AtomicBool::new(false),
        seq: AtomicU64::new(0),
        bufs: (0..NBUF).map(|_| Mutex::new(Vec::new())).collect(),
        next_thread: AtomicU32::new(0),
        base_pm: AtomicU32::new(0),
        base_us: AtomicU32::new(0),
        focus_class: AtomicU32::new(u32::MAX),
        focus_pm: AtomicU32::new(0),
        focus_us: AtomicU32::new(0),
        directors: AtomicU32::new(0),
        timeout_free: AtomicBool::new(true),
        run_seed: AtomicU64::new(0),
        miri: cfg!(miri),
        in_delay: AtomicU64::new(0),
        spins: AtomicU64::new(0),
        points: AtomicU64::new(0),
        parked: [AtomicU64::new(0), AtomicU64::new(0), AtomicU64::new(0), AtomicU64::new(0)],
        in_exec: AtomicU64::new(0),
        exec_begins: AtomicU64::new(0),
        progress_marks: AtomicU64::new(0),
        alive: [AtomicU64::new(0), AtomicU64::new(0), AtomicU64::new(0), AtomicU64::new(0)],
        started: [AtomicU64::new(0), AtomicU64::new(0), AtomicU64::new(0), AtomicU64::new(0)],
        slot_of_role: [AtomicUsize::new(0), AtomicUsize::new(0), AtomicUsize::new(0), AtomicUsize::new(0)],
        notified_since_park: [AtomicBool::new(false), AtomicBool::new(false), AtomicBool::new(false), AtomicBool::new(false)],
        tslots: (0..NBUF).map(|_| ThreadSlot { role: AtomicU32::new(0), parked: AtomicBool::new(false), spins: AtomicU64::new(0) }).collect(),
        fin_examined: (0..MAX_TX).map(|_| AtomicU64::new(0)).collect(),
        rewinds: AtomicU64::new(0),
        validations_done: AtomicU64::new(0),
        commit_published: AtomicUsize::new(0),
        notifies: AtomicU64::new(0),
        reexec_ends: AtomicU64::new(0),
        park_enters: AtomicU64::new(0),
        holds: AtomicU64::new(0),
        hold_hits: AtomicU64::new(0),
        delays: AtomicU64::new(0),
    });
    static INSTALLED: AtomicBool = AtomicBool::new(false);
    if !INSTALLED.swap(true, Relaxed) {
        verif::install(o);
    }
    o
}

fn thread_id(o: &Obs) -> u32 {
    TL_THREAD.with(|c| {
        if c.get() == u32::MAX {
            let id = o.next_thread.fetch_add(1, Relaxed);
            c.set(id);
            TL_RNG.with(|r| r.set(o.run_seed.load(Relaxed) ^ (id as u64 + 1).wrapping_mul(0x9E37_79B9_7F4A_7C15)));
        }
        c.get()
    })
}

fn tl_rand() -> u64 {
    TL_RNG.with(|r| {
        let mut x = r.get();
        if x == 0 {
            x = 0x2545_F491_4F6C_DD1D;
        }
        x ^= x << 13;
        x ^= x >> 7;
        x ^= x << 17;
        r.set(x);
        x
    })
}

impl Obs {
    pub fn begin_run(&self, profile: &Profile, seed: u64) {
        for b in &self.bufs {
            b.lock().clear();
        }
        self.seq.store(0, Relaxed);
        self.base_pm.store(profile.base_pm, Relaxed);
        self.base_us.store(profile.base_us, Relaxed);
        match profile.focus {
            Some((c, pm, us)) => {
                self.focus_class.store(c as u32, Relaxed);
                self.focus_pm.store(pm, Relaxed);
                self.focus_us.store(us, Relaxed);
            }
            None => self.focus_class.store(u32::MAX, Relaxed),
        }
        self.directors.store(profile.directors, Relaxed);
        self.timeout_free.store(profile.timeout_free, Relaxed);
        self.run_seed.store(seed, Relaxed);
        self.spins.store(0, Relaxed);
        self.points.store(0, Relaxed);
        self.in_exec.store(0, Relaxed);
        self.exec_begins.store(0, Relaxed);
        self.progress_marks.store(0, Relaxed);
        for p in &self.parked {
            p.store(0, Relaxed);
        }
        for p in &self.alive {
            p.store(0, Relaxed);
        }
        for p in &self.started {
            p.store(0, Relaxed);
        }
        for p in &self.slot_of_role {
            p.store(0, Relaxed);
        }
        for p in &self.notified_since_park {
            p.store(false, Relaxed);
        }
        for t in &self.tslots {
            t.role.store(0, Relaxed);
            t.parked.store(false, Relaxed);
            t.spins.store(0, Relaxed);
        }
        for f in &self.fin_examined {
            f.store(0, Relaxed);
        }
        self.rewinds.store(0, Relaxed);
        self.validations_done.store(0, Relaxed);
        self.commit_published.store(0, Relaxed);
        self.notifies.store(0, Relaxed);
        self.reexec_ends.store(0, Relaxed);
        self.park_enters.store(0, Relaxed);
        self.holds.store(0, Relaxed);
        self.hold_hits.store(0, Relaxed);
        self.delays.store(0, Relaxed);
        self.recording.store(true, std::sync::atomic::Ordering::SeqCst);
    }

    /// Stop recording and return the trace in global order.
    pub fn end_run(&self) -> Vec<Rec> {
        self.recording.store(false, std::sync::atomic::Ordering::SeqCst);
        self.base_pm.store(0, Relaxed);
        self.focus_class.store(u32::MAX, Relaxed);
        self.directors.store(0, Relaxed);
        let mut all = Vec::new();
        for b in &self.bufs {
            all.append(&mut b.lock());
        }
        all.sort_by_key(|r| r.seq);
        all
    }

    /// Let a component driver announce a commit it performed itself (for the cache director).
    pub fn signal_commit(&self) {
        self.commit_published.fetch_add(1, Relaxed);
    }

    pub fn seq_now(&self) -> u64 {
        self.seq.load(Relaxed)
    }

    fn push(&self, ev: Ev) {
        if !self.recording.load(Relaxed) {
            return;
        }
        let thread = thread_id(self);
        let role = TL_ROLE.with(|r| r.get());
        let seq = self.seq.fetch_add(1, Relaxed);
        self.bufs[thread as usize % NBUF].lock().push(Rec { seq, thread, role, ev });
    }

    fn delay_us(&self, us: u64) {
        self.delays.fetch_add(1, Relaxed);
        self.in_delay.fetch_add(1, Relaxed);
        if self.miri || us < 30 {
            for _ in 0..(us.max(1) * if self.miri { 1 } else { 40 }) {
                std::hint::spin_loop();
            }
            std::thread::yield_now();
        } else {
            std::thread::sleep(Duration::from_micros(us));
        }
        self.in_delay.fetch_sub(1, Relaxed);
    }

    /// Hold the calling thread until `cond` holds or the budget runs out.
    fn hold(&self, max_us: u64, mut cond: impl FnMut() -> bool) {
        self.holds.fetch_add(1, Relaxed);
        self.in_delay.fetch_add(1, Relaxed);
        if self.miri {
            for _ in 0..(max_us / 20).max(5) {
                if cond() {
                    self.hold_hits.fetch_add(1, Relaxed);
                    break;
                }
                std::thread::yield_now();
            }
        } else {
            let start = Instant::now();
            let budget = Duration::from_micros(max_us);
            loop {
                if cond() {
                    self.hold_hits.fetch_add(1, Relaxed);
                    break;
                }
                if start.elapsed() >= budget {
                    break;
                }
                std::thread::yield_now();
            }
        }
        self.in_delay.fetch_sub(1, Relaxed);
    }

    fn director(&self, bits: u32, point: Point, a: usize, _b: usize) {
        match point {
            Point::ValidationClaimed if bits & D_CLAIM_LOCK != 0 && a < MAX_TX => {
                if tl_rand() % 2 == 0 {
                    let before = self.fin_examined[a].load(Relaxed);
                    self.hold(1500, || self.fin_examined[a].load(Relaxed) != before);
                }
            }
            Point::ValidateScanItem | Point::ValidateAfterScan if bits & D_VALIDATE_SCAN != 0 => {
                if tl_rand() % 3 == 0 {
                    let before = self.rewinds.load(Relaxed);
                    self.hold(1500, || self.rewinds.load(Relaxed) != before);
                }
            }
            Point::ExecAfterRun | Point::ExecBeforeStatus if bits & D_EXEC_PUBLISH != 0 => {
                if tl_rand() % 3 == 0 {
                    let before = self.validations_done.load(Relaxed);
                    self.hold(1500, || self.validations_done.load(Relaxed) != before);
                }
            }
            Point::ValidateAfterEstimate | Point::RewindAfterTick | Point::RewindAfterLowerTs
                if bits & D_ESTIMATE_REWIND != 0 =>
            {
                // between "writes marked as estimates", "beneficiary entry invalidated", "lower
                // timestamp published" and "cursor rewound": let another worker validate meanwhile
                if tl_rand() % 2 == 0 {
                    let before = self.validations_done.load(Relaxed);
                    self.hold(1500, || self.validations_done.load(Relaxed) != before);
                }
            }
            Point::ExecAfterRun if bits & D_FINISH_AT_HEAD != 0 && a > 0 => {
                if tl_rand() % 2 == 0 {
                    self.hold(4000, || self.commit_published.load(Relaxed) >= a);
                }
            }
            Point::ExecBeforeRun if bits & D_GATE != 0 && a >= 2 && _b == 1 => {
                // one "gate" transaction in three (fixed per run and index)
                if (self.run_seed.load(Relaxed) ^ (a as u64).wrapping_mul(0x9E37_79B9_7F4A_7C15)) % 3 == 0 {
                    let before = self.reexec_ends.load(Relaxed);
                    self.hold(4000, || self.reexec_ends.load(Relaxed) != before);
                }
            }
            Point::ExecBeforeRun if bits & D_COMMIT_HEAD != 0 && a > 0 => {
                if tl_rand() % 2 == 0 {
                    let want = (tl_rand() as usize % a) + 1;
                    self.hold(3000, || self.commit_published.load(Relaxed) >= want);
                }
            }
            Point::FinalityBeforePublish | Point::FinalityBeforeNotify | Point::CommitBeforePublish |
            Point::CommitBeforeRelease | Point::ValidateBeforeNotify | Point::CancelAfterStore
                if bits & D_COORD != 0 =>
            {
                if tl_rand() % 2 == 0 {
                    let before = self.spins.load(Relaxed);
                    self.hold(1000, || self.spins.load(Relaxed) > before + 20);
                }
            }
            Point::NotifyReturn if bits & D_AFTER_NOTIFY != 0 => {
                if tl_rand() % 2 == 0 {
                    let before = self.park_enters.load(Relaxed);
                    self.hold(2000, || self.park_enters.load(Relaxed) != before);
                }
            }
            Point::WaitBeforePark | Point::WaitAfterFirstCheck if bits & D_WAIT != 0 => {
                if tl_rand() % 2 == 0 {
                    let before = self.notifies.load(Relaxed);
                    self.hold(1500, || self.notifies.load(Relaxed) != before);
                }
            }
            Point::CacheAfterFetchStorage | Point::CacheAfterFetchBasic if bits & D_CACHE != 0 => {
                if tl_rand() % 2 == 0 {
                    let before = self.commit_published.load(Relaxed);
                    self.hold(3000, || self.commit_published.load(Relaxed) != before);
                    // give other readers time to touch the same account after that commit
                    self.delay_us(tl_rand() % 300);
                }
            }
            _ => {}
        }
    }
}

impl Obs {
    /// Seeded probabilistic delay of the calling thread (profile `base` rates, or the `focus`
    /// rates when `class` is the focused one).
    fn perturb(&self, class: Class) {
        let class = class as u32;
        let (pm, us) = if self.focus_class.load(Relaxed) == class {
            (self.focus_pm.load(Relaxed), self.focus_us.load(Relaxed))
        } else {
            (self.base_pm.load(Relaxed), self.base_us.load(Relaxed))
        };
        if pm == 0 {
            return;
        }
        let x = tl_rand();
        if (x % 1000) as u32 >= pm {
            return;
        }
        let us = 1 + (x >> 20) % us.max(1) as u64;
        self.delay_us(us);
    }
}

/// Protocol events double as schedule points: a change to grevm may move code relative to the
/// fixed `point()` sites, but the events mark the protocol steps themselves (several are emitted
/// under the lock of the state they describe - a thread pre-empted while holding a lock is a
/// schedule the OS can produce).
fn class_of_event(e: &Event) -> Option<Class> {
    Some(match e {
        Event::ExecBegin { .. } => Class::ExecStart,
        Event::ExecEnd { .. } => Class::ExecPublish,
        Event::ValidationBegin { .. } | Event::ValidationEnd { ok: true, .. } => Class::ValidateScan,
        Event::Rewind { .. } => Class::EstimateRewind,
        Event::Finality { .. } | Event::FinalityPublished { .. } => Class::Finality,
        Event::CommitTake { .. } | Event::CommitPublished { .. } => Class::Commit,
        Event::DepAdd { .. } | Event::DepCleared { .. } | Event::DepKey { .. } | Event::DepCommitRelease { .. } | Event::DepHandoff { .. } => Class::Dep,
        Event::Abort { .. } => Class::Abort,
        _ => return None,
    })
}

impl Hooks for Obs {
    fn point(&self, point: Point, a: usize, b: usize) {
        if !self.recording.load(Relaxed) {
            return;
        }
        if matches!(point, Point::NextLoop) {
            self.spins.fetch_add(1, Relaxed);
            self.tslots[thread_id(self) as usize % NBUF].spins.fetch_add(1, Relaxed);
            return;
        }
        self.points.fetch_add(1, Relaxed);
        let _ = thread_id(self);
        let bits = self.directors.load(Relaxed);
        if bits != 0 {
            self.director(bits, point, a, b);
        }
        self.perturb(class_of(point));
    }

    fn event(&self, event: Event) {
        match event {
            Event::ThreadStart(role) => {
                let code = match role {
                    Role::Worker => 1,
                    Role::Finality => 2,
                    Role::Commit => 3,
                };
                TL_ROLE.with(|r| r.set(code));
                self.alive[code as usize].fetch_add(1, Relaxed);
                self.started[code as usize].fetch_add(1, Relaxed);
                let slot = &self.tslots[thread_id(self) as usize % NBUF];
                slot.parked.store(false, Relaxed);
                slot.spins.store(0, Relaxed);
                slot.role.store(code as u32, Relaxed);
            }
            Event::ThreadEnd(role) => {
                let code = match role {
                    Role::Worker => 1,
                    Role::Finality => 2,
                    Role::Commit => 3,
                };
                self.alive[code].fetch_sub(1, Relaxed);
                self.tslots[thread_id(self) as usize % NBUF].role.store(0, Relaxed);
            }
            Event::FinalityBlocked { idx, .. } | Event::Finality { idx, .. } if idx < MAX_TX => {
                self.fin_examined[idx].fetch_add(1, Relaxed);
            }
            Event::Rewind { .. } => {
                self.rewinds.fetch_add(1, Relaxed);
            }
            Event::ValidationEnd { .. } => {
                self.validations_done.fetch_add(1, Relaxed);
            }
            Event::CommitPublished { idx } => {
                self.commit_published.store(idx, Relaxed);
                self.progress_marks.fetch_add(1, Relaxed);
            }
            Event::Notify { slot, had_thread } => {
                self.notifies.fetch_add(1, Relaxed);
                if had_thread {
                    for role in 2..4 {
                        if self.slot_of_role[role].load(Relaxed) == slot {
                            self.notified_since_park[role].store(true, Relaxed);
                        }
                    }
                }
            }
            Event::Register { slot } => {
                let role = TL_ROLE.with(|r| r.get()) as usize;
                self.slot_of_role[role & 3].store(slot, Relaxed);
            }
            Event::ParkEnter { .. } => {
                self.park_enters.fetch_add(1, Relaxed);
                let role = TL_ROLE.with(|r| r.get()) as usize;
                self.notified_since_park[role & 3].store(false, Relaxed);
                self.parked[role & 3].fetch_add(1, Relaxed);
                self.tslots[thread_id(self) as usize % NBUF].parked.store(true, Relaxed);
            }
            Event::ParkExit { .. } => {
                let role = TL_ROLE.with(|r| r.get()) as usize;
                self.parked[role & 3].fetch_sub(1, Relaxed);
                self.tslots[thread_id(self) as usize % NBUF].parked.store(false, Relaxed);
            }
            Event::ExecBegin { .. } => {
                self.in_exec.fetch_add(1, Relaxed);
                self.exec_begins.fetch_add(1, Relaxed);
            }
            Event::Finality { .. } => {
                self.progress_marks.fetch_add(1, Relaxed);
            }
            Event::ExecEnd { incarnation, .. } => {
                self.in_exec.fetch_sub(1, Relaxed);
                if incarnation > 1 {
                    self.reexec_ends.fetch_add(1, Relaxed);
                }
            }
            _ => {}
        }
        self.push(Ev::G(event));
        if let Event::ThreadEnd(_) = event {
            TL_ROLE.with(|r| r.set(0));
        }
        // A failed validation's verdict is reported after the cursor was rewound and before the
        // remaining conflict bookkeeping (dependency re-offer, anything a change may have moved
        // there): treat it as a schedule point of the estimate/rewind class as well. The thread
        // holds its transaction lock here, which is exactly what a pre-empted validator does.
        if let Event::ValidationEnd { txid, incarnation, ok: false } = event {
            self.point(Point::ValidateAfterEstimate, txid, incarnation);
        } else if self.recording.load(Relaxed) &&
            let Some(class) = class_of_event(&event)
        {
            self.perturb(class);
        }
    }

    fn park_timeout(&self, _slot: usize, default: Duration) -> Duration {
        if self.recording.load(Relaxed) && self.timeout_free.load(Relaxed) {
            Duration::from_secs(3600)
        } else {
            default
        }
    }

    fn commit_meta(&self, meta: CommitMeta) {
        self.push(Ev::Meta(meta));
    }

    fn commit_state(&self, path: CommitPath, txid: usize, result: &ExecutionResult, state: &EvmState) {
        self.push(Ev::State { path, txid, result: result.clone(), delta: canon_delta(state) });
    }

    fn sequential_skip(&self, txid: usize, error: &InvalidTransaction) {
        self.push(Ev::Skip { txid, error: error.clone() });
    }
}
