//! Deterministic PRNG (xoshiro256** seeded by splitmix64). No wall-clock or OS entropy.

#[derive(Clone, Debug)]
pub struct Rng {
    s: [u64; 4],
}

fn splitmix(x: &mut u64) -> u64 {
    *x = x.wrapping_add(0x9E37_79B9_7F4A_7C15);
    let mut z = *x;
    z = (z ^ (z >> 30)).wrapping_mul(0xBF58_476D_1CE4_E5B9);
    z = (z ^ (z >> 27)).wrapping_mul(0x94D0_49BB_1331_11EB);
    z ^ (z >> 31)
}

impl Rng {
    pub fn new(seed: u64) -> Self {
        let mut x = seed;
        let s = [splitmix(&mut x), splitmix(&mut x), splitmix(&mut x), splitmix(&mut x)];
        Self { s }
    }

    /// Derive an independent stream.
    pub fn fork(&mut self, tag: u64) -> Rng {
        Rng::new(self.next() ^ tag.wrapping_mul(0xD6E8_FEB8_6659_FD93))
    }

    pub fn next(&mut self) -> u64 {
        let result = self.s[1].wrapping_mul(5).rotate_left(7).wrapping_mul(9);
        let t = self.s[1] << 17;
        self.s[2] ^= self.s[0];
        self.s[3] ^= self.s[1];
        self.s[1] ^= self.s[2];
        self.s[0] ^= self.s[3];
        self.s[2] ^= t;
        self.s[3] = self.s[3].rotate_left(45);
        result
    }

    /// Uniform in `0..n` (n > 0).
    pub fn below(&mut self, n: u64) -> u64 {
        debug_assert!(n > 0);
        self.next() % n
    }

    pub fn usize(&mut self, n: usize) -> usize {
        self.below(n as u64) as usize
    }

    /// Inclusive range.
    pub fn range(&mut self, lo: u64, hi: u64) -> u64 {
        lo + self.below(hi - lo + 1)
    }

    /// True with probability `num/den`.
    pub fn chance(&mut self, num: u64, den: u64) -> bool {
        self.below(den) < num
    }

    pub fn pick<'a, T>(&mut self, items: &'a [T]) -> &'a T {
        &items[self.usize(items.len())]
    }

    /// Index drawn according to integer weights.
    pub fn weighted(&mut self, weights: &[u32]) -> usize {
        let total: u64 = weights.iter().map(|w| *w as u64).sum();
        debug_assert!(total > 0);
        let mut x = self.below(total);
        for (i, w) in weights.iter().enumerate() {
            if x < *w as u64 {
                return i;
            }
            x -= *w as u64;
        }
        weights.len() - 1
    }

    pub fn shuffle<T>(&mut self, items: &mut [T]) {
        for i in (1..items.len()).rev() {
            let j = self.usize(i + 1);
            items.swap(i, j);
        }
    }
}

/// FNV-1a style 64-bit hash for signatures.
#[derive(Clone, Copy, Debug)]
pub struct Fnv(pub u64);

impl Default for Fnv {
    fn default() -> Self {
        Fnv(0xcbf2_9ce4_8422_2325)
    }
}

impl Fnv {
    pub fn add(&mut self, x: u64) {
        for b in x.to_le_bytes() {
            self.0 ^= b as u64;
            self.0 = self.0.wrapping_mul(0x0000_0100_0000_01B3);
        }
    }
    pub fn add_bytes(&mut self, bytes: &[u8]) {
        for b in bytes {
            self.0 ^= *b as u64;
            self.0 = self.0.wrapping_mul(0x0000_0100_0000_01B3);
        }
    }
}
