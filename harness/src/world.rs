//! Block cases: pre-state, environment, transactions; seeded generators per workload family.

use crate::{
    db::{AccountSeed, MemDb},
    progs::{self, InitBlob, Mix, Program, Stmt, TABLE_BASE},
    rng::{Fnv, Rng},
};
use revm_context::{
    BlockEnv, TxEnv,
    either::Either,
    transaction::{Authorization, RecoveredAuthority, RecoveredAuthorization},
};
use revm_context::context_interface::block::BlobExcessGasAndPrice;
use revm_primitives::{Address, B256, Bytes, TxKind, U256, hardfork::SpecId, keccak256};
use std::{collections::BTreeMap, sync::Arc};

pub const ALL_SPECS: &[SpecId] = &[
    SpecId::FRONTIER,
    SpecId::HOMESTEAD,
    SpecId::TANGERINE,
    SpecId::SPURIOUS_DRAGON,
    SpecId::BYZANTIUM,
    SpecId::PETERSBURG,
    SpecId::ISTANBUL,
    SpecId::BERLIN,
    SpecId::LONDON,
    SpecId::MERGE,
    SpecId::SHANGHAI,
    SpecId::CANCUN,
    SpecId::PRAGUE,
    SpecId::OSAKA,
    SpecId::AMSTERDAM,
];
pub const MODERN_SPECS: &[SpecId] =
    &[SpecId::LONDON, SpecId::SHANGHAI, SpecId::CANCUN, SpecId::PRAGUE, SpecId::OSAKA, SpecId::AMSTERDAM];
pub const PRAGUE_SPECS: &[SpecId] = &[SpecId::PRAGUE, SpecId::OSAKA, SpecId::AMSTERDAM];

pub fn table_addr(i: u64) -> Address {
    let mut b = [0u8; 20];
    b[12..].copy_from_slice(&(TABLE_BASE + i).to_be_bytes());
    Address::from(b)
}

pub fn delegation_code(target: Address) -> Vec<u8> {
    let mut v = vec![0xef, 0x01, 0x00];
    v.extend_from_slice(target.as_slice());
    v
}

/// Role of the block beneficiary.
#[derive(Clone, Copy, Debug, PartialEq, Eq)]
pub enum BenRole {
    /// A dedicated rich EOA that is never a sender.
    PlainEoa,
    /// An address absent from the pre-state.
    Absent,
    /// One of the sending EOAs.
    Sender,
    /// One of the hot contracts (has code and storage).
    Contract,
    /// Existing account with near-overflow balance.
    NearOverflow,
    /// An existing empty account.
    Empty,
}

#[derive(Clone, Debug)]
pub struct GenParams {
    pub family: &'static str,
    pub specs: &'static [SpecId],
    pub txs: (usize, usize),
    pub n_eoa: u64,
    pub n_con: u64,
    pub mix: Mix,
    /// weights: [call contract, plain transfer, create tx, call arbitrary table entry]
    pub kind_w: [u32; 4],
    /// percent of deliberately invalid transactions
    pub invalid_pct: u64,
    /// percent of type-4 transactions (Prague+)
    pub auth_pct: u64,
    /// number of EOAs that start delegated (Prague+)
    pub pre_delegated: u64,
    pub ben_roles: &'static [BenRole],
    /// percent chance the nonce check is disabled
    pub nonce_check_off_pct: u64,
    /// percent of txs sent from one hot sender (nonce chains)
    pub hot_sender_pct: u64,
    /// basefee choices
    pub basefees: &'static [u64],
    /// percent of zero-priority-fee txs
    pub zero_tip_pct: u64,
    /// number of custom precompile table slots
    pub n_precompiles: u64,
    /// percent of low gas-limit (out-of-gas prone) txs
    pub low_gas_pct: u64,
    /// number of "poor" senders whose balance only covers a few txs
    pub poor_senders: u64,
    /// contracts read calldata-dependent "probe" accounts only while slot 0 is still zero and
    /// then set slot 0: in order only the first caller touches a probe key, speculative attempts
    /// of later transactions touch theirs too (keys no in-order execution reads)
    pub stale_probe: bool,
    /// give pre-delegated EOAs a balance at / one below / one above / far above the summed
    /// maximum cost of their own block transactions (reserve-policy boundary cases)
    pub reserve_shape: bool,
    /// contract 0 is the hand-written "pointer" contract: mode 0 sets a pointer in slot 0,
    /// mode 1 writes slot[1 + pointer], mode 2 copies slot[1 + a] to slot[8 + b]; a re-executed
    /// writer *moves* its write (same write-set size, different location)
    pub pointer_contract: bool,
    /// contract 0 is the hand-written "destroy-flip" victim: mode 0 sets a flag in slot 0,
    /// mode 1 either writes two slots (flag 0) or self-destructs to the caller (flag != 0) - the
    /// two behaviours have write sets of the same size - and mode 2 reads a slot
    pub destroy_flip_contract: bool,
    /// contract 1 is the hand-written "refunder": it sends the value it received straight back to
    /// its caller (a delegated account can debit and be credited back within one transaction)
    pub refunder_contract: bool,
    /// contract 0 is a factory that CREATE2-deploys (salt 0) a hand-written hot-slot child whose
    /// constructor writes storage; most transactions call the child directly: store / copy
    /// (value flows from a loaded slot into another slot) / return a slot / zero a slot or
    /// self-destruct. In half of the cases the child already exists in the pre-state with non-zero
    /// storage, so a pre-Cancun destroy + re-create masks backing storage. Reads of the child's
    /// slots therefore resolve against a storage-reset marker published inside the block.
    pub reborn_contract: bool,
    /// constructors of top-level create transactions often call back the transaction origin (a
    /// delegated sender then runs its delegate's code, in its own context, inside a create tx)
    pub ctor_calls_origin: bool,
    /// addresses that CREATE will produce in this block (hot contracts at nonce 1..2, senders at
    /// their next three nonces) are known up front: half of them already hold a small balance
    /// (nonce 0, no code), and transactions call / fund / inspect them before and after creation
    pub derived_create_addrs: bool,
    /// percent of valid authorisations whose nonce bump the generator "forgets": the authority's
    /// own later transactions then carry a nonce that is stale by one *because of a transaction
    /// somebody else sent* (in order: NonceTooLow skip, then the next one is valid again)
    pub forget_auth_bump_pct: u64,
    /// deliberately invalid transactions are mostly nonce-too-low / nonce-too-high
    pub invalid_nonce_bias: bool,
    /// contract 0 is the hand-written "withdraw" contract: mode 0 sets a flag (reads nothing),
    /// mode 1 writes a data slot only while the flag is still 0, mode 2 copies a data slot without
    /// ever reading the flag. A writer that ran before the flag setter withdraws its write on
    /// re-execution, so its reader fails validation *without any preceding writer left* (the
    /// "no dependency" re-offer path)
    pub withdraw_contract: bool,
}

pub const CREATE2_SPECS: &[SpecId] = &[
    SpecId::PETERSBURG,
    SpecId::ISTANBUL,
    SpecId::BERLIN,
    SpecId::LONDON,
    SpecId::MERGE,
    SpecId::SHANGHAI,
    SpecId::CANCUN,
    SpecId::PRAGUE,
    SpecId::OSAKA,
    SpecId::AMSTERDAM,
];

impl Default for GenParams {
    fn default() -> Self {
        Self {
            family: "mixed",
            specs: MODERN_SPECS,
            txs: (4, 16),
            n_eoa: 5,
            n_con: 3,
            mix: Mix::default(),
            kind_w: [12, 3, 1, 2],
            invalid_pct: 0,
            auth_pct: 0,
            pre_delegated: 0,
            ben_roles: &[BenRole::PlainEoa],
            nonce_check_off_pct: 10,
            hot_sender_pct: 30,
            basefees: &[0, 7],
            zero_tip_pct: 15,
            n_precompiles: 0,
            low_gas_pct: 3,
            poor_senders: 0,
            stale_probe: false,
            reserve_shape: false,
            pointer_contract: false,
            destroy_flip_contract: false,
            refunder_contract: false,
            reborn_contract: false,
            ctor_calls_origin: false,
            derived_create_addrs: false,
            forget_auth_bump_pct: 0,
            invalid_nonce_bias: false,
            withdraw_contract: false,
        }
    }
}

/// Runtime of the "reborn" child (see `GenParams::reborn_contract`).
fn reborn_child_runtime() -> Vec<Stmt> {
    use progs::Arith::{Add, Eq};
    vec![
        Stmt::ModK(5, 0, 4), // mode
        // mode 0: SSTORE(r1 mod 4, r2)
        Stmt::Const(6, 0),
        Stmt::Arith(6, 5, 6, Eq),
        Stmt::IfZeroSkip(6, 1),
        Stmt::SStore(1, 4, 2),
        // mode 1: slot[4 + r2 mod 4] = SLOAD(r1 mod 4) + 1
        Stmt::Const(6, 1),
        Stmt::Arith(6, 5, 6, Eq),
        Stmt::IfZeroSkip(6, 7),
        Stmt::SLoad(3, 1, 4),
        Stmt::Const(7, 1),
        Stmt::Arith(3, 3, 7, Add),
        Stmt::ModK(7, 2, 4),
        Stmt::Const(4, 4),
        Stmt::Arith(7, 7, 4, Add),
        Stmt::SStore(7, 16, 3),
        // mode 2: return SLOAD(r1 mod 4)
        Stmt::Const(6, 2),
        Stmt::Arith(6, 5, 6, Eq),
        Stmt::IfZeroSkip(6, 2),
        Stmt::SLoad(3, 1, 4),
        Stmt::Return(3),
        // mode 3: r3 mod 3 == 0 ? selfdestruct(caller) : SSTORE(r1 mod 4, 0)
        Stmt::Const(6, 3),
        Stmt::Arith(6, 5, 6, Eq),
        Stmt::IfZeroSkip(6, 6),
        Stmt::ModK(7, 3, 3),
        Stmt::IfNonZeroSkip(7, 2),
        Stmt::Caller(7),
        Stmt::SelfDestructRaw(7),
        Stmt::Const(7, 0),
        Stmt::SStore(1, 4, 7),
        Stmt::Stop,
    ]
}

/// Layout of the address table of one case.
#[derive(Clone, Debug)]
pub struct Layout {
    pub n_eoa: u64,
    pub n_con: u64,
    pub n_pc: u64,
    pub table: u64,
}

impl Layout {
    pub fn eoa(&self, i: u64) -> Address {
        table_addr(i % self.n_eoa)
    }
    pub fn con(&self, i: u64) -> Address {
        table_addr(self.n_eoa + i % self.n_con.max(1))
    }
    pub fn idx_ben(&self) -> u64 {
        self.n_eoa + self.n_con
    }
    pub fn idx_absent(&self) -> u64 {
        self.n_eoa + self.n_con + 1
    }
    pub fn idx_empty(&self) -> u64 {
        self.n_eoa + self.n_con + 2
    }
    pub fn pc(&self, i: u64) -> Address {
        table_addr(self.n_eoa + self.n_con + 3 + i % self.n_pc.max(1))
    }
}

#[derive(Clone, Debug)]
pub struct Case {
    pub family: &'static str,
    pub spec: SpecId,
    pub db: Arc<MemDb>,
    pub block: BlockEnv,
    pub txs: Arc<Vec<TxEnv>>,
    pub disable_nonce_check: bool,
    pub layout: Layout,
    pub slots: u64,
    pub programs: BTreeMap<Address, Program>,
    pub hash: u64,
    pub seed: u64,
    /// Addresses that may be created by CREATE2 with known salts (for probes).
    pub create2_addrs: Vec<Address>,
}

pub const RICH: u128 = 1_000_000_000_000_000_000_000; // 1000 ether

pub fn create2_address(deployer: Address, salt: u64, init: &[u8]) -> Address {
    let mut buf = Vec::with_capacity(85);
    buf.push(0xff);
    buf.extend_from_slice(deployer.as_slice());
    buf.extend_from_slice(&U256::from(salt).to_be_bytes::<32>());
    buf.extend_from_slice(keccak256(init).as_slice());
    Address::from_slice(&keccak256(&buf)[12..])
}

fn word(x: u64) -> [u8; 32] {
    U256::from(x).to_be_bytes::<32>()
}

pub fn calldata(words: &[u64]) -> Bytes {
    let mut v = Vec::with_capacity(words.len() * 32);
    for w in words {
        v.extend_from_slice(&word(*w));
    }
    v.into()
}

pub fn case_hash(spec: SpecId, db: &MemDb, block: &BlockEnv, txs: &[TxEnv], nonce_off: bool) -> u64 {
    let mut h = Fnv::default();
    h.add(spec as u64);
    h.add(nonce_off as u64);
    h.add_bytes(format!("{block:?}").as_bytes());
    for (a, s) in &db.accounts {
        h.add_bytes(a.as_slice());
        h.add_bytes(format!("{s:?}").as_bytes());
    }
    for tx in txs {
        h.add_bytes(format!("{tx:?}").as_bytes());
    }
    h.0
}

pub fn block_env(spec: SpecId, beneficiary: Address, basefee: u64) -> BlockEnv {
    let mut block = BlockEnv {
        number: U256::from(5u64),
        beneficiary,
        timestamp: U256::from(1_700_000_000u64),
        gas_limit: 30_000_000,
        basefee: if spec.is_enabled_in(SpecId::LONDON) { basefee } else { 0 },
        difficulty: U256::from(1u64),
        prevrandao: Some(B256::repeat_byte(0x42)),
        ..Default::default()
    };
    if spec.is_enabled_in(SpecId::CANCUN) {
        block.blob_excess_gas_and_price = Some(BlobExcessGasAndPrice::new(0, 3338477));
    }
    block
}

/// Tracks what the generator believes each account's nonce will be at each point of the block,
/// assuming every earlier transaction it meant to be valid is valid.
#[derive(Default)]
struct Nonces(BTreeMap<Address, u64>);

impl Nonces {
    fn get(&self, a: Address) -> u64 {
        self.0.get(&a).copied().unwrap_or(0)
    }
    fn bump(&mut self, a: Address) -> u64 {
        let e = self.0.entry(a).or_insert(0);
        *e += 1;
        *e - 1
    }
}

pub struct TxShape {
    pub tip: u128,
    pub legacy: bool,
}

pub fn base_tx(spec: SpecId, block: &BlockEnv, caller: Address, nonce: u64, r: &mut Rng, zero_tip_pct: u64) -> TxEnv {
    let tip: u128 = if r.chance(zero_tip_pct, 100) { 0 } else { r.range(1, 3) as u128 };
    let london = spec.is_enabled_in(SpecId::LONDON);
    let use_1559 = london && r.chance(1, 2);
    let basefee = block.basefee as u128;
    let mut tx = TxEnv {
        caller,
        nonce,
        gas_limit: 400_000,
        value: U256::ZERO,
        ..TxEnv::default()
    };
    if use_1559 {
        tx.tx_type = 2;
        tx.gas_price = basefee + tip + r.below(3) as u128; // max fee
        tx.gas_priority_fee = Some(tip);
    } else {
        tx.tx_type = 0;
        tx.gas_price = basefee + tip;
        tx.gas_priority_fee = None;
    }
    tx
}

/// Make `tx` invalid in one of the ways revm's validation rejects; returns the kind name, or None
/// if this mutation is not applicable.
pub fn make_invalid(
    tx: &mut TxEnv,
    spec: SpecId,
    block: &BlockEnv,
    contract: Address,
    r: &mut Rng,
    nonce_bias: bool,
) -> Option<&'static str> {
    let pick = if nonce_bias && r.chance(3, 4) { *r.pick(&[0u64, 0, 1]) } else { r.below(11) };
    match pick {
        0 => {
            if tx.nonce == 0 {
                return None;
            }
            tx.nonce -= 1;
            Some("nonce_too_low")
        }
        1 => {
            tx.nonce += r.range(1, 3);
            Some("nonce_too_high")
        }
        2 => {
            tx.value = U256::MAX / U256::from(2u64);
            Some("lack_of_funds")
        }
        3 => {
            tx.gas_limit = r.range(1000, 20_999);
            Some("intrinsic_gas")
        }
        4 => {
            if block.basefee == 0 {
                return None;
            }
            tx.gas_price = (block.basefee as u128).saturating_sub(1);
            if tx.gas_priority_fee.is_some() {
                tx.gas_priority_fee = Some(0);
            }
            Some("fee_below_basefee")
        }
        5 => {
            if tx.tx_type != 2 {
                return None;
            }
            tx.gas_priority_fee = Some(tx.gas_price + 1);
            Some("priority_gt_max")
        }
        6 => {
            tx.caller = contract;
            Some("caller_with_code")
        }
        7 => {
            tx.gas_limit = block.gas_limit + 1;
            Some("gas_limit_gt_block")
        }
        8 => {
            tx.chain_id = Some(77);
            Some("chain_id")
        }
        9 => {
            tx.nonce = u64::MAX;
            Some("nonce_max")
        }
        _ => {
            if !spec.is_enabled_in(SpecId::SHANGHAI) || !matches!(tx.kind, TxKind::Create) {
                return None;
            }
            tx.data = vec![0u8; 49_153].into();
            tx.gas_limit = 5_000_000;
            Some("initcode_size")
        }
    }
}

pub fn generate(p: &GenParams, seed: u64) -> Case {
    let mut r = Rng::new(seed ^ 0x5EED_0000_0000_0001);
    let spec = *r.pick(p.specs);
    let prague = spec.is_enabled_in(SpecId::PRAGUE);
    let n_eoa = p.n_eoa.max(2);
    let n_con = p.n_con.max(1);
    let n_pc = p.n_precompiles;
    let layout = Layout { n_eoa, n_con, n_pc, table: n_eoa + n_con + 3 + n_pc };
    let mix = p.mix.clone();

    let mut accounts: BTreeMap<Address, AccountSeed> = BTreeMap::new();
    let mut programs = BTreeMap::new();
    let mut create2_addrs = Vec::new();

    // contracts
    for i in 0..n_con {
        let mut pr = r.fork(0xC0 + i);
        let mut prog = progs::gen_program(&mut pr, &mix, spec, layout.table);
        if p.stale_probe {
            let mut stmts = vec![
                Stmt::Const(7, 0),
                Stmt::SLoad(6, 7, mix.slots),
                Stmt::IfNonZeroSkip(6, 4),
                Stmt::Const(4, 0xDEAD00),
                Stmt::Arith(4, 4, 1, progs::Arith::Add),
                Stmt::BalanceRaw(5, 4),
                Stmt::SLoad(5, 2, 64),
            ];
            stmts.append(&mut prog.stmts);
            // make sure the marker is set even if the random body returns early: set it first
            stmts.insert(7, Stmt::Const(5, 1));
            stmts.insert(8, Stmt::SStore(7, mix.slots, 5));
            prog.stmts = stmts;
        }
        if p.pointer_contract && i == 0 {
            use progs::Arith::{Add, Eq};
            prog.inits.clear();
            prog.stmts = vec![
                Stmt::Const(7, 0),
                Stmt::SLoad(4, 7, 1), // r4 = pointer = SLOAD(0)
                Stmt::ModK(5, 0, 3),  // mode
                // mode 0: SSTORE(0, r1)
                Stmt::Const(6, 0),
                Stmt::Arith(6, 5, 6, Eq),
                Stmt::IfZeroSkip(6, 2),
                Stmt::Const(7, 0),
                Stmt::SStore(7, 1, 1),
                // mode 1: SSTORE(1 + pointer mod 4, r2)
                Stmt::Const(6, 1),
                Stmt::Arith(6, 5, 6, Eq),
                Stmt::IfZeroSkip(6, 4),
                Stmt::ModK(7, 4, 4),
                Stmt::Const(6, 1),
                Stmt::Arith(7, 7, 6, Add),
                Stmt::SStore(7, 16, 2),
                // mode 2: slot[8 + r2 mod 4] = slot[1 + r1 mod 4]
                Stmt::Const(6, 2),
                Stmt::Arith(6, 5, 6, Eq),
                Stmt::IfZeroSkip(6, 8),
                Stmt::ModK(7, 1, 4),
                Stmt::Const(6, 1),
                Stmt::Arith(7, 7, 6, Add),
                Stmt::SLoad(3, 7, 16),
                Stmt::ModK(7, 2, 4),
                Stmt::Const(6, 8),
                Stmt::Arith(7, 7, 6, Add),
                Stmt::SStore(7, 16, 3),
                Stmt::Return(3),
            ];
        }
        if p.refunder_contract && i == 1 {
            prog.inits.clear();
            prog.stmts = vec![
                Stmt::CallValue(5),
                Stmt::Caller(6),
                Stmt::Call { kind: progs::CallKind::Call, a: 6, raw: true, v: 5, vmax: u64::MAX, ds: 7, dr: 7 },
                Stmt::Return(5),
            ];
        }
        if p.refunder_contract && i == 2 {
            // "pinger": sends a small value to the refunder (table index n_eoa + 1) and gets it back
            prog.inits.clear();
            prog.stmts = vec![
                Stmt::Const(4, n_eoa + 1),
                Stmt::Call { kind: progs::CallKind::Call, a: 4, raw: false, v: 1, vmax: 1000, ds: 5, dr: 6 },
                Stmt::Return(6),
            ];
        }
        if p.refunder_contract && i == 3 {
            // "fan-out": calls three of the first four table entries (senders, most of them
            // delegated in the reserve families) with the original arguments, so one transaction
            // runs delegated code - and may debit - in several delegated accounts
            prog.inits.clear();
            prog.stmts = vec![
                Stmt::ModK(4, 0, 4),
                Stmt::Call { kind: progs::CallKind::Call, a: 4, raw: false, v: 7, vmax: 1, ds: 5, dr: 6 },
                Stmt::ModK(4, 1, 4),
                Stmt::Call { kind: progs::CallKind::Call, a: 4, raw: false, v: 7, vmax: 1, ds: 5, dr: 6 },
                Stmt::ModK(4, 2, 4),
                Stmt::Call { kind: progs::CallKind::Call, a: 4, raw: false, v: 7, vmax: 1, ds: 5, dr: 6 },
                Stmt::Return(6),
            ];
        }
        if p.withdraw_contract && i == 0 {
            use progs::Arith::{Add, Eq};
            prog.inits.clear();
            prog.stmts = vec![
                Stmt::ModK(5, 0, 3), // mode
                // mode 0: SSTORE(0, 1)
                Stmt::Const(6, 0),
                Stmt::Arith(6, 5, 6, Eq),
                Stmt::IfZeroSkip(6, 4),
                Stmt::Const(7, 0),
                Stmt::Const(4, 1),
                Stmt::SStore(7, 1, 4),
                Stmt::Stop,
                // mode 1: if SLOAD(0) == 0 { SSTORE(1 + r1 mod 8, r2 + 1) }
                Stmt::Const(6, 1),
                Stmt::Arith(6, 5, 6, Eq),
                Stmt::IfZeroSkip(6, 10),
                Stmt::Const(7, 0),
                Stmt::SLoad(4, 7, 1),
                Stmt::IfNonZeroSkip(4, 6),
                Stmt::ModK(7, 1, 8),
                Stmt::Const(6, 1),
                Stmt::Arith(7, 7, 6, Add),
                Stmt::Const(6, 1),
                Stmt::Arith(3, 2, 6, Add),
                Stmt::SStore(7, 16, 3),
                Stmt::Stop,
                // mode 2: slot[9 + r2 mod 4] = SLOAD(1 + r1 mod 8)   (never reads the flag)
                Stmt::ModK(7, 1, 8),
                Stmt::Const(6, 1),
                Stmt::Arith(7, 7, 6, Add),
                Stmt::SLoad(3, 7, 16),
                Stmt::ModK(7, 2, 4),
                Stmt::Const(6, 9),
                Stmt::Arith(7, 7, 6, Add),
                Stmt::SStore(7, 16, 3),
                Stmt::Return(3),
            ];
        }
        if p.destroy_flip_contract && i == 0 {
            use progs::Arith::{Add, Eq};
            prog.inits.clear();
            prog.stmts = vec![
                Stmt::Const(7, 0),
                Stmt::SLoad(4, 7, 1), // r4 = flag = SLOAD(0)
                Stmt::ModK(5, 0, 3),  // mode
                // mode 0: SSTORE(0, r1 mod 2)
                Stmt::Const(6, 0),
                Stmt::Arith(6, 5, 6, Eq),
                Stmt::IfZeroSkip(6, 2),
                Stmt::Const(7, 0),
                Stmt::SStoreSmall(7, 1, 1, 2),
                // mode 1
                Stmt::Const(6, 1),
                Stmt::Arith(6, 5, 6, Eq),
                Stmt::IfZeroSkip(6, 12),
                //   flag != 0: selfdestruct to the caller
                Stmt::IfZeroSkip(4, 2),
                Stmt::Caller(7),
                Stmt::SelfDestructRaw(7),
                //   flag == 0: two slot writes
                Stmt::ModK(7, 1, 3),
                Stmt::Const(6, 1),
                Stmt::Arith(7, 7, 6, Add),
                Stmt::SStore(7, 16, 2),
                Stmt::ModK(7, 2, 3),
                Stmt::Const(6, 4),
                Stmt::Arith(7, 7, 6, Add),
                Stmt::SStore(7, 16, 3),
                Stmt::Stop,
                // mode 2: r3 = SLOAD(1 + r1 mod 3), also own balance
                Stmt::ModK(7, 1, 3),
                Stmt::Const(6, 1),
                Stmt::Arith(7, 7, 6, Add),
                Stmt::SLoad(3, 7, 16),
                Stmt::Return(3),
            ];
        }
        if p.reborn_contract && i == 0 {
            // constructor: two non-zero slot writes that depend on the creating call's data
            let ctor = vec![
                Stmt::Const(5, 1),
                Stmt::Arith(5, 1, 5, progs::Arith::Add),
                Stmt::SStore(2, 4, 5),
                Stmt::Const(5, 9),
                Stmt::SStore(3, 4, 5),
            ];
            prog.inits = vec![InitBlob { ctor, runtime: reborn_child_runtime() }];
            prog.stmts = vec![
                Stmt::Const(4, 0),
                Stmt::Create { two: true, init: 0, v: 4, vmax: 1, s: 4, d: 5 },
                Stmt::Return(5),
            ];
        }
        let code = progs::compile(&prog);
        let addr = layout.con(i);
        let mut storage = BTreeMap::new();
        for s in ((p.stale_probe || (p.withdraw_contract && i == 0)) as u64)..mix.slots {
            if r.chance(1, 2) {
                storage.insert(U256::from(s), U256::from(r.below(6)));
            }
        }
        for (k, blob) in prog.inits.iter().enumerate() {
            let init = progs::compile_init(blob, layout.table);
            for salt in 0..2 {
                create2_addrs.push(create2_address(addr, salt, &init));
            }
            let _ = k;
        }
        accounts.insert(
            addr,
            AccountSeed {
                balance: U256::from(r.below(1000)),
                nonce: 1,
                code: Some(code),
                storage,
            },
        );
        if p.reborn_contract && i == 0 && r.chance(1, 2) {
            // the child already lives at its CREATE2 address, with storage in the backing store
            let child = create2_addrs[0];
            let runtime = progs::compile(&Program { stmts: reborn_child_runtime(), inits: vec![], table: layout.table });
            let mut st = BTreeMap::new();
            for sl in 0..8u64 {
                if r.chance(2, 3) {
                    st.insert(U256::from(sl), U256::from(r.range(1, 7)));
                }
            }
            accounts.insert(child, AccountSeed { balance: U256::from(r.below(50)), nonce: 1, code: Some(runtime), storage: st });
        }
        programs.insert(addr, prog);
    }

    // EOAs
    let poor = p.poor_senders.min(n_eoa - 1);
    for i in 0..n_eoa {
        let addr = layout.eoa(i);
        let balance = if i >= n_eoa - poor {
            // enough for roughly 1-3 default transactions
            U256::from(400_000u64 * (8 + r.below(10)) * r.range(1, 3))
        } else {
            U256::from(RICH)
        };
        let mut seed_acc = AccountSeed { balance, nonce: r.below(3), code: None, storage: BTreeMap::new() };
        if prague && i < p.pre_delegated {
            // in the refunder families half of the delegations point at the refunder: a delegated
            // sender then bounces received value straight back to whoever paid it
            // ... and a third at the random value-moving contract 0, so that one transaction can
            // debit several delegated accounts for real
            let target = if p.refunder_contract {
                match r.below(20) {
                    0..=6 => layout.con(1),
                    7..=13 => layout.con(0),
                    _ => layout.con(r.below(n_con)),
                }
            } else {
                layout.con(r.below(n_con))
            };
            seed_acc.code = Some(delegation_code(target));
            // delegated EOAs may carry storage of their own
            if r.chance(1, 2) {
                seed_acc.storage.insert(U256::from(r.below(mix.slots)), U256::from(r.range(1, 5)));
            }
        }
        accounts.insert(addr, seed_acc);
    }
    // the empty account
    accounts.insert(table_addr(layout.idx_empty()), AccountSeed::default());
    if p.derived_create_addrs {
        let mut derived = Vec::new();
        for i in 0..n_con {
            for n in 1..=2u64 {
                derived.push(layout.con(i).create(n));
            }
        }
        for i in 0..n_eoa {
            let e = layout.eoa(i);
            let n0 = accounts.get(&e).map(|a| a.nonce).unwrap_or(0);
            for k in 0..3u64 {
                derived.push(e.create(n0 + k));
            }
        }
        for d in &derived {
            if r.chance(1, 2) {
                accounts.insert(*d, AccountSeed { balance: U256::from(r.range(1, 9)), nonce: 0, code: None, storage: BTreeMap::new() });
            }
        }
        create2_addrs.extend(derived);
    }

    // beneficiary
    let role = *r.pick(p.ben_roles);
    let beneficiary = match role {
        BenRole::PlainEoa => {
            let a = table_addr(layout.idx_ben());
            accounts.insert(a, AccountSeed { balance: U256::from(r.below(100)), nonce: 0, code: None, storage: BTreeMap::new() });
            a
        }
        BenRole::Absent => table_addr(layout.idx_ben()),
        BenRole::Sender => layout.eoa(r.below(n_eoa)),
        BenRole::Contract => layout.con(r.below(n_con)),
        BenRole::NearOverflow => {
            let a = table_addr(layout.idx_ben());
            accounts.insert(
                a,
                AccountSeed {
                    balance: U256::MAX - U256::from(r.below(2_000_000)),
                    nonce: 0,
                    code: None,
                    storage: BTreeMap::new(),
                },
            );
            a
        }
        BenRole::Empty => table_addr(layout.idx_empty()),
    };
    let basefee = *r.pick(p.basefees);
    let block = block_env(spec, beneficiary, basefee);

    // transactions
    let n_txs = r.range(p.txs.0 as u64, p.txs.1 as u64) as usize;
    let mut nonces = Nonces::default();
    for (a, s) in &accounts {
        nonces.0.insert(*a, s.nonce);
    }
    let hot_sender = layout.eoa(r.below(n_eoa));
    let mut txs = Vec::with_capacity(n_txs);
    for _ in 0..n_txs {
        let caller = if r.chance(p.hot_sender_pct, 100) { hot_sender } else { layout.eoa(r.below(n_eoa)) };
        let invalid = r.chance(p.invalid_pct, 100);
        let nonce = nonces.get(caller);
        let mut tx = base_tx(spec, &block, caller, nonce, &mut r, p.zero_tip_pct);
        tx.data = calldata(&[r.below(8), r.below(8), r.below(8), r.below(8)]);
        let is_auth = prague && r.chance(p.auth_pct, 100);
        match r.weighted(&p.kind_w) {
            0 => tx.kind = TxKind::Call(layout.con(r.below(n_con))),
            1 => {
                tx.kind = TxKind::Call(table_addr(r.below(layout.table)));
                tx.value = U256::from(r.below(1_000_000));
                tx.data = Bytes::new();
                tx.gas_limit = if r.chance(1, 2) { 21_000 } else { 100_000 };
            }
            2 if !is_auth => {
                let mut blob = progs::gen_init(&mut r, &mix, spec);
                if p.ctor_calls_origin && r.chance(2, 3) {
                    blob.ctor.insert(0, Stmt::Origin(6));
                    blob.ctor.insert(1, Stmt::Call { kind: progs::CallKind::Call, a: 6, raw: true, v: 7, vmax: 1, ds: 5, dr: 4 });
                }
                tx.kind = TxKind::Create;
                tx.data = progs::compile_init(&blob, layout.table).into();
                tx.gas_limit = 1_000_000;
                tx.value = U256::from(r.below(3));
            }
            _ => {
                // any table entry, sometimes a CREATE2-derived address
                let to = if !create2_addrs.is_empty() && r.chance(if p.derived_create_addrs { 3 } else { 2 }, 6) {
                    *r.pick(&create2_addrs)
                } else {
                    table_addr(r.below(layout.table))
                };
                tx.kind = TxKind::Call(to);
                tx.value = U256::from(r.below(3));
            }
        }
        if p.reserve_shape && matches!(tx.kind, TxKind::Call(_)) && r.chance(1, 2) {
            // top-level values of the same order as fees and as the values delegated code moves
            // around (the reserve rule exempts exactly this one transfer)
            tx.value = U256::from(r.below(6_000_000));
            if p.refunder_contract && r.chance(1, 4) {
                tx.kind = TxKind::Call(layout.con(1));
            }
        }
        if p.reborn_contract {
            // mostly the child (whether or not it exists yet), sometimes the factory
            tx.kind = TxKind::Call(if r.chance(1, 6) { layout.con(0) } else { create2_addrs[0] });
            tx.value = U256::ZERO;
            tx.data = calldata(&[r.below(8), r.below(8), r.below(8), r.below(9)]);
        }
        if r.chance(p.low_gas_pct, 100) {
            tx.gas_limit = r.range(21_000, 60_000);
        }
        if is_auth {
            tx.tx_type = 4;
            if tx.gas_priority_fee.is_none() {
                tx.gas_priority_fee = Some(tx.gas_price.saturating_sub(block.basefee as u128).min(2));
            }
            if matches!(tx.kind, TxKind::Create) {
                tx.kind = TxKind::Call(layout.con(r.below(n_con)));
            }
        }
        let mut kind = None;
        if invalid {
            kind = make_invalid(&mut tx, spec, &block, layout.con(r.below(n_con)), &mut r, p.invalid_nonce_bias);
        }
        if kind.is_none() {
            // intended valid: the sender's nonce advances
            nonces.bump(caller);
        }
        if is_auth {
            let n_auth = r.range(1, 3);
            let mut list = Vec::new();
            for _ in 0..n_auth {
                // mostly a sender; sometimes an address with no account in the pre-state at all
                // (an authorisation then installs code on an account that is not "created")
                let authority = if r.chance(1, 6) { table_addr(layout.idx_absent()) } else { layout.eoa(r.below(n_eoa)) };
                let target = match r.below(6) {
                    0 => Address::ZERO,
                    1 => layout.eoa(r.below(n_eoa)),
                    _ => layout.con(r.below(n_con)),
                };
                let wrong = r.chance(1, 8);
                let auth_nonce = if wrong { nonces.get(authority) + r.range(1, 2) } else { nonces.get(authority) };
                if !wrong && kind.is_none() && !r.chance(p.forget_auth_bump_pct, 100) {
                    nonces.bump(authority);
                }
                let chain_id = if r.chance(1, 10) { U256::from(1u64) } else { U256::ZERO };
                let auth = Authorization { chain_id, address: target, nonce: auth_nonce };
                list.push(Either::Right(RecoveredAuthorization::new_unchecked(
                    auth,
                    if r.chance(1, 20) { RecoveredAuthority::Invalid } else { RecoveredAuthority::Valid(authority) },
                )));
            }
            tx.authorization_list = list;
        }
        txs.push(tx);
    }

    if p.reserve_shape && prague {
        use revm_context::context_interface::Transaction;
        for i in 0..p.pre_delegated.min(n_eoa) {
            let addr = layout.eoa(i);
            let mut sum = U256::ZERO;
            for tx in txs.iter().filter(|t| t.caller == addr) {
                sum = sum.saturating_add(tx.max_balance_spending().unwrap_or(U256::MAX));
            }
            if sum > U256::from(u128::MAX) {
                // a deliberately invalid transaction with an absurd value: no balance shaping
                // (balances near 2^256 wrap on credit in revm itself and mean nothing)
                continue;
            }
            let balance = match r.below(5) {
                0 => sum,
                1 => sum.saturating_sub(U256::from(1u64)),
                2 => sum.saturating_add(U256::from(1u64)),
                3 => sum.saturating_add(U256::from(r.below(5_000_000))),
                _ => sum.saturating_mul(U256::from(3u64)).saturating_add(U256::from(10_000_000u64)),
            };
            if let Some(acc) = accounts.get_mut(&addr) {
                acc.balance = balance;
            }
        }
    }
    let mut db = MemDb::new(accounts);
    // half of the pre-states answer unknown code hashes with empty code (revm's EmptyDB / CacheDB
    // behaviour), half with an error
    db.lenient_code = r.chance(1, 2);
    let disable_nonce_check = r.chance(p.nonce_check_off_pct, 100);
    let hash = case_hash(spec, &db, &block, &txs, disable_nonce_check);
    Case {
        family: p.family,
        spec,
        db: Arc::new(db),
        block,
        txs: Arc::new(txs),
        disable_nonce_check,
        layout,
        slots: mix.slots,
        programs,
        hash,
        seed,
        create2_addrs,
    }
}

/// Hand-built contract: returns a program from explicit statements.
pub fn program(stmts: Vec<Stmt>, inits: Vec<InitBlob>, table: u64) -> Program {
    Program { stmts, inits, table }
}

impl Case {
    /// Short human-readable summary for evidence samples.
    pub fn summary(&self) -> serde_json::Value {
        let txs: Vec<String> = self
            .txs
            .iter()
            .map(|t| {
                let to = match t.kind {
                    TxKind::Call(a) => crate::db::short_addr(&a),
                    TxKind::Create => "CREATE".to_string(),
                };
                format!(
                    "{}->{} n={} v={} g={} ty={} auth={} data={}",
                    crate::db::short_addr(&t.caller),
                    to,
                    t.nonce,
                    t.value,
                    t.gas_limit,
                    t.tx_type,
                    t.authorization_list.len(),
                    if t.data.len() <= 128 {
                        t.data.chunks(32).map(|c| format!("{}", U256::from_be_slice(c))).collect::<Vec<_>>().join(",")
                    } else {
                        format!("{}B", t.data.len())
                    }
                )
            })
            .collect();
        serde_json::json!({
            "family": self.family,
            "seed": self.seed,
            "case_hash": format!("{:016x}", self.hash),
            "spec": format!("{:?}", self.spec),
            "nonce_check_disabled": self.disable_nonce_check,
            "beneficiary": crate::db::short_addr(&self.block.beneficiary),
            "basefee": self.block.basefee,
            "accounts": self.db.accounts.len(),
            "txs": txs,
        })
    }
}
