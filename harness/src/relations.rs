//! Relations between runs: C14 (at most one execution per scheduler) and C06 (results are a
//! function of block, configuration of the EVM and policy only).

use crate::{
    campaign::{Campaign, Finding, IterCtx, ProfileWeights, ShardReport, check_equal, pick_runcfg, record, reference_for, stall_violation},
    compare::{diff_bundle, diff_outcomes, diff_readback, readback},
    db::{FaultDb, FaultPlan},
    monitors::{TraceInput, Violation, check_trace},
    obs::{self, Class, Profile, obs},
    progs::Mix,
    reference::err_sig,
    rng::{Fnv, Rng},
    run::{Entry, RunCfg, cfg_env, probe_addrs, probe_slots, run_grevm},
    world::{ALL_SPECS, BenRole, GenParams, PRAGUE_SPECS, generate},
};
use grevm::{DelegatedSafetyConfig, GrevmConfig, ParallelState, ParallelTakeBundle, Scheduler};
use revm_database::states::bundle_state::BundleRetention;
use std::{
    sync::{
        Arc, Barrier,
        atomic::{AtomicBool, AtomicU64, Ordering},
    },
    time::Instant,
};

const ONCE_MSG: &str = "a Scheduler can execute only once";

fn finding(prop: &str, monitor: &str, message: String, iter_seed: u64, extra: serde_json::Value) -> Finding {
    Finding {
        property: prop.into(),
        monitor: monitor.into(),
        owner: prop.into(),
        signature: format!("{monitor}:general"),
        message: message.clone(),
        replay: serde_json::json!({"property": prop, "monitor": monitor, "message": message, "iter_seed": iter_seed, "detail": extra}),
    }
}

// =================================================================================================
// C14
// =================================================================================================

pub struct C14;

impl Campaign for C14 {
    fn prop(&self) -> &'static str {
        "C14"
    }
    fn iterate(&self, iter_seed: u64, rep: &mut ShardReport, _deadline: Instant) {
        let mut r = Rng::new(iter_seed);
        let params = GenParams {
            family: "once",
            txs: (0, 8),
            n_eoa: 3,
            n_con: 2,
            mix: Mix { sload: 10, sstore: 10, slots: 3, ..Mix::default() },
            kind_w: [8, 4, 1, 1],
            invalid_pct: 5,
            ..GenParams::default()
        };
        let case = generate(&params, r.next());
        let n = case.txs.len();
        let plan = FaultPlan::default();
        let reference = reference_for(&case, &plan, true, true);
        let db = Arc::new(FaultDb::new(case.db.clone(), plan));
        let addrs = probe_addrs(&case);
        let slots = probe_slots(&case);

        // (b) before any execution: no outcomes, untouched state
        if r.chance(1, 5) {
            let fresh = Scheduler::new_with_runtime_config(
                cfg_env(&case),
                case.block.clone(),
                case.txs.clone(),
                ParallelState::new(db.clone(), true, false),
                None,
                GrevmConfig { concurrency_level: 2, force_sequential: false, min_parallel_txs: 0, delegated_safety: DelegatedSafetyConfig::disabled() },
            );
            let (outcomes, mut state) = fresh.take_result_and_state();
            rep.bump("fresh_scheduler_checks", 1);
            if !outcomes.is_empty() {
                rep.findings.push(finding("C14", "ONCE", format!("a never-executed scheduler returned {} outcomes", outcomes.len()), iter_seed, case.summary()));
                return;
            }
            let bundle = state.parallel_take_bundle(BundleRetention::Reverts);
            if !bundle.state.is_empty() || !bundle.contracts.is_empty() || bundle.reverts.iter().any(|r| !r.is_empty()) {
                rep.findings.push(finding("C14", "ONCE", "a never-executed scheduler returned a non-empty bundle".into(), iter_seed, case.summary()));
                return;
            }
            let mut pristine = ParallelState::new(db.clone(), true, false);
            let ra = readback(&mut pristine, &addrs, &slots);
            let rb = readback(&mut state, &addrs, &slots);
            if let Some(d) = diff_readback(&ra, &rb) {
                rep.findings.push(finding("C14", "ONCE", format!("a never-executed scheduler returned a touched state: {d}"), iter_seed, case.summary()));
                return;
            }
        }

        let workers = *r.pick(&[1usize, 2, 4]);
        let config = GrevmConfig {
            concurrency_level: workers,
            force_sequential: r.chance(1, 6),
            min_parallel_txs: if r.chance(1, 4) { n + 1 } else { 0 },
            delegated_safety: DelegatedSafetyConfig::disabled(),
        };
        let scheduler = Scheduler::new_with_runtime_config(
            cfg_env(&case),
            case.block.clone(),
            case.txs.clone(),
            ParallelState::new(db.clone(), true, false),
            None,
            config,
        );
        let callers = r.range(2, 6) as usize;
        let concurrent = r.range(2, callers as u64) as usize; // these start behind a barrier
        let barrier = Barrier::new(concurrent);
        let first_done = AtomicBool::new(false);
        let stamp = AtomicU64::new(1);
        let entries: Vec<Entry> = (0..callers)
            .map(|_| match r.below(3) {
                0 => Entry::Execute,
                1 => Entry::ParallelExecute(*r.pick(&[1usize, 2, 3])),
                _ => Entry::FallbackSequential,
            })
            .collect();
        let profile = match r.below(3) {
            0 => Profile::quiet(),
            1 => Profile::focus(Class::ExecStart, 800, 200),
            _ => Profile::chaos(),
        };
        obs().begin_run(&profile, r.next());
        // history: (thread, entry, call stamp, return stamp, result)
        let history: Vec<(usize, Entry, u64, u64, Result<(), String>)> = std::thread::scope(|s| {
            let mut hs = Vec::new();
            for t in 0..callers {
                let (scheduler, barrier, first_done, stamp) = (&scheduler, &barrier, &first_done, &stamp);
                let entry = entries[t];
                hs.push(s.spawn(move || {
                    if t < concurrent {
                        barrier.wait();
                    } else {
                        while !first_done.load(Ordering::Acquire) {
                            std::thread::yield_now();
                        }
                    }
                    let call = stamp.fetch_add(1, Ordering::SeqCst);
                    // a panic inside an entry point (e.g. a coordinator registering twice because
                    // two calls run the block at once) is an outcome to be judged, not a harness crash
                    let res = std::panic::catch_unwind(std::panic::AssertUnwindSafe(|| match entry {
                        Entry::Execute => scheduler.execute(),
                        Entry::ParallelExecute(k) => scheduler.parallel_execute(Some(k)),
                        Entry::FallbackSequential => scheduler.fallback_sequential(),
                    }));
                    let ret = stamp.fetch_add(1, Ordering::SeqCst);
                    first_done.store(true, Ordering::Release);
                    let res = match res {
                        Ok(r) => r.map_err(|e| err_sig(&e.error)),
                        Err(p) => Err(format!(
                            "PANIC:{}",
                            p.downcast_ref::<String>().cloned().or_else(|| p.downcast_ref::<&str>().map(|s| s.to_string())).unwrap_or_default()
                        )),
                    };
                    (t, entry, call, ret, res)
                }));
            }
            hs.into_iter().map(|h| h.join().unwrap()).collect()
        });
        let trace = obs().end_run();
        db.disarm();
        rep.evaluations += 1;
        let winners: Vec<_> = history.iter().filter(|h| !matches!(&h.4, Err(m) if m.contains(ONCE_MSG))).collect();
        let run_once_wins = trace.iter().filter(|r| matches!(r.ev, obs::Ev::G(grevm::verif::Event::RunOnce { won: true }))).count();
        let mut sig = Fnv::default();
        for h in &history {
            sig.add(h.0 as u64);
            sig.add(h.2);
            sig.add(h.3);
            sig.add(h.4.is_ok() as u64);
        }
        let key = (case.hash, sig.0);
        rep.distinct.insert(key);
        let overlapping = history.iter().any(|a| history.iter().any(|b| a.0 != b.0 && a.2 < b.3 && b.2 < a.3));
        if overlapping {
            rep.distinct_nontrivial.insert(key);
        }
        rep.bump("entry_point_calls", history.len() as u64);
        rep.bump("histories_with_overlapping_calls", overlapping as u64);
        rep.bump("rejected_calls", (history.len() - winners.len()) as u64);
        let hist_json: Vec<String> = history.iter().map(|h| format!("t{} {:?} call={} ret={} -> {:?}", h.0, h.1, h.2, h.3, h.4)).collect();
        let detail = serde_json::json!({"case": case.summary(), "history": hist_json});
        if let Some(p) = history.iter().find(|h| matches!(&h.4, Err(m) if m.starts_with("PANIC:"))) {
            rep.findings.push(finding(
                "C14",
                "ONCE",
                format!("an entry-point call panicked instead of being rejected ({}): more than one call is running the block", p.4.clone().unwrap_err()),
                iter_seed,
                detail,
            ));
            return;
        }
        if winners.len() != 1 {
            rep.findings.push(finding("C14", "ONCE", format!("{} of {} entry-point calls ran the block (exactly one must)", winners.len(), history.len()), iter_seed, detail));
            return;
        }
        if run_once_wins != 1 {
            rep.findings.push(finding("C14", "ONCE", format!("{run_once_wins} calls passed the once-only gate"), iter_seed, detail));
            return;
        }
        if let Err(e) = &winners[0].4 {
            rep.findings.push(finding("C14", "ONCE", format!("the winning call failed: {e}"), iter_seed, detail));
            return;
        }
        let (outcomes, mut state) = scheduler.take_result_and_state();
        let bundle = state.parallel_take_bundle(BundleRetention::Reverts);
        if let Some(d) = diff_outcomes(&reference.outcomes, &outcomes) {
            rep.findings.push(finding("C14", "ONCE", format!("after {} calls: {d}", history.len()), iter_seed, detail));
            return;
        }
        if let Some(d) = diff_bundle(&reference.bundle, &bundle) {
            rep.findings.push(finding("C14", "ONCE", format!("after {} calls (something applied twice?): {d}", history.len()), iter_seed, detail));
            return;
        }
        if rep.samples.len() < 2 && overlapping {
            rep.samples.push(detail);
        }
    }
}

// =================================================================================================
// C06
// =================================================================================================

pub struct C06;

fn policy_family(name: &'static str) -> GenParams {
    GenParams {
        family: name,
        specs: PRAGUE_SPECS,
        txs: (3, 12),
        n_eoa: 4,
        n_con: 3,
        mix: Mix { create: 5, call: 10, selfdestruct: 1, sload: 6, sstore: 6, slots: 3, vmax: 4_000_000, ..Mix::default() },
        kind_w: [6, 2, 1, 10],
        auth_pct: 25,
        pre_delegated: 2,
        hot_sender_pct: 40,
        reserve_shape: true,
        refunder_contract: true,
        invalid_pct: 10,
        ..GenParams::default()
    }
}

impl Campaign for C06 {
    fn prop(&self) -> &'static str {
        "C06"
    }
    fn iterate(&self, iter_seed: u64, rep: &mut ShardReport, _deadline: Instant) {
        let mut r = Rng::new(iter_seed);
        let family_pick = r.below(7);
        let params = match family_pick {
            0 | 1 => policy_family("policy-heavy"),
            2 => GenParams { family: "policy-heavy-creates", kind_w: [4, 2, 3, 12], ctor_calls_origin: true, pre_delegated: 3, ..policy_family("policy-heavy-creates") },
            3 => GenParams {
                family: "mixed",
                specs: ALL_SPECS,
                txs: (3, 16),
                n_eoa: 5,
                n_con: 3,
                mix: Mix { selfdestruct: 1, create: 2, ..Mix::default() },
                invalid_pct: 8,
                auth_pct: 15,
                pre_delegated: 1,
                ben_roles: &[BenRole::PlainEoa, BenRole::Absent, BenRole::Sender, BenRole::Contract],
                poor_senders: 1,
                ..GenParams::default()
            },
            4 => GenParams {
                family: "pointer",
                txs: (5, 14),
                n_eoa: 6,
                n_con: 1,
                mix: Mix { slots: 12, ..Mix::default() },
                kind_w: [16, 0, 0, 0],
                hot_sender_pct: 10,
                pointer_contract: true,
                low_gas_pct: 0,
                ..GenParams::default()
            },
            _ => GenParams {
                family: "hot-slots",
                txs: (4, 14),
                n_eoa: 5,
                n_con: 2,
                mix: Mix { sload: 14, sstore: 14, call: 4, slots: 3, len: (4, 12), ..Mix::default() },
                kind_w: [14, 1, 0, 1],
                ..GenParams::default()
            },
        };
        let case = generate(&params, r.next());
        let n = case.txs.len();
        // policy-heavy blocks mostly run with the reserve policy on (that is where the two paths
        // share order-dependent planner state); the others draw uniformly
        let policy = match if family_pick <= 2 && r.chance(3, 4) { 2 + r.below(4) } else { r.below(4) } {
            0 => DelegatedSafetyConfig::disabled(),
            1 => DelegatedSafetyConfig::create_only(),
            2 | 4 => DelegatedSafetyConfig::reserve_only(),
            _ => DelegatedSafetyConfig::enabled(),
        };
        let policy_inert = !policy.for_spec(case.spec).forbid_delegated_create && !policy.for_spec(case.spec).reserve_delegated_balance;
        let with_reverts = r.chance(3, 4);
        let plan = FaultPlan::default();
        let reference = if policy_inert { Some(reference_for(&case, &plan, true, with_reverts)) } else { None };
        let pw = ProfileWeights::default();
        // the orbit: a fixed skeleton of structurally different configurations plus random ones
        let mut cfgs: Vec<RunCfg> = Vec::new();
        let skeleton: [(usize, usize, bool, Entry); 6] = [
            (1, 0, false, Entry::Execute),
            (4, 0, false, Entry::Execute),
            (2, n + 1, false, Entry::Execute),
            (8, 0, true, Entry::Execute),
            (3, 0, false, Entry::FallbackSequential),
            (16, n, false, Entry::ParallelExecute(2)),
        ];
        for (w, m, f, e) in skeleton {
            let mut rc = pick_runcfg(&mut r, n, &pw, 0);
            rc.workers = w;
            rc.min_parallel_txs = m;
            rc.force_sequential = f;
            rc.entry = e;
            cfgs.push(rc);
        }
        for _ in 0..2 {
            cfgs.push(pick_runcfg(&mut r, n, &pw, 20));
        }
        let mut first: Option<(String, crate::run::RunOut)> = None;
        for mut rc in cfgs {
            rc.safety = policy;
            rc.with_reverts = with_reverts;
            let out = run_grevm(&case, &rc, &plan, None);
            let mut violations: Vec<Violation> = Vec::new();
            if let Some(sv) = stall_violation(&out) {
                violations.push(sv);
            }
            if let Some(p) = &out.panic {
                violations.push(Violation { monitor: "PANIC", owner: "C05", message: format!("execute() panicked: {p}") });
            }
            let (tv, stats) = check_trace(&TraceInput {
                trace: &out.trace,
                n_txs: n,
                outcomes: &out.outcomes,
                reference: reference.as_ref(),
                errored: out.result.is_err(),
            });
            if out.stall.is_none() && out.panic.is_none() {
                violations.extend(tv);
                if let Some(rf) = &reference {
                    violations.extend(check_equal(rf, &out));
                }
                if let Some((desc0, o0)) = &first {
                    let mut diffs = Vec::new();
                    if o0.result != out.result {
                        diffs.push(format!("result {:?} vs {:?}", o0.result, out.result));
                    }
                    if let Some(d) = diff_outcomes(&o0.outcomes, &out.outcomes) {
                        diffs.push(d);
                    }
                    if let Some(d) = diff_bundle(&o0.bundle, &out.bundle) {
                        diffs.push(d);
                    }
                    if let Some(d) = diff_readback(&o0.readback, &out.readback) {
                        diffs.push(d);
                    }
                    if let Some(d) = diffs.first() {
                        violations.push(Violation {
                            monitor: "ORBIT",
                            owner: "C06",
                            message: format!(
                                "same block and policy ({},{}) gave different results under [{}] and [{}]: {d}",
                                policy.forbid_delegated_create,
                                policy.reserve_delegated_balance,
                                desc0,
                                rc.describe()
                            ),
                        });
                    }
                }
            }
            rep.bump(if policy_inert { "orbit_runs_policy_off" } else { "orbit_runs_policy_on" }, 1);
            let nontrivial = stats.nontrivial() || rc.sequential_for(n);
            let ctx = IterCtx { prop: "C06", iter_seed, family_idx: 0 };
            record(rep, &ctx, &case, &rc, &plan, &out, &stats, violations, nontrivial);
            if first.is_none() && out.stall.is_none() && out.panic.is_none() {
                first = Some((rc.describe(), out));
            }
        }
        rep.bump("orbits", 1);
    }
}
