#![allow(dead_code)]
mod asm;
mod c10;
mod campaign;
mod compare;
mod components;
mod db;
mod faults;
mod monitors;
mod obs;
mod orchestrate;
mod policy;
mod progs;
mod props;
mod reference;
mod relations;
mod rng;
mod run;
mod world;

use std::time::Duration;

fn usage() -> ! {
    eprintln!(
        "usage:\n  vharness check <C..> <quick|thorough>\n  vharness shard <C..> <tier> <seed> <shard> <budget_s> <max_iters> <out.json>\n  vharness replay <file.json>\n  vharness smoke [seed] [iters]"
    );
    std::process::exit(2)
}

fn main() {
    // Injected panics are expected in some campaigns: keep their backtraces out of the log.
    std::panic::set_hook(Box::new(|info| {
        let msg = info.to_string();
        campaign::note_panic(&msg);
        if !msg.contains(db::PANIC_PREFIX) {
            eprintln!("{msg}");
        }
    }));
    let args: Vec<String> = std::env::args().collect();
    if args.len() < 2 {
        usage();
    }
    match args[1].as_str() {
        "noop" => {}
        "dbg13" => policy::debug_c13(args[2].parse().unwrap()),
        "check" => {
            if args.len() < 4 {
                usage();
            }
            std::process::exit(orchestrate::check(&args[2], &args[3]));
        }
        "shard" => {
            if args.len() < 9 {
                usage();
            }
            let prop = &args[2];
            let tier = &args[3];
            let seed: u64 = args[4].parse().unwrap();
            let shard: u64 = args[5].parse().unwrap();
            let budget = Duration::from_secs_f64(args[6].parse().unwrap());
            let max_iters: u64 = args[7].parse().unwrap();
            orchestrate::set_emergency_path(&args[8]);
            let rep = orchestrate::run_shard(prop, tier, seed, shard, budget, max_iters);
            std::fs::write(&args[8], serde_json::to_string(&rep.to_json()).unwrap()).unwrap();
        }
        "replay" => {
            if args.len() < 3 {
                usage();
            }
            std::process::exit(orchestrate::replay(&args[2]));
        }
        "smoke" => {
            let seed: u64 = args.get(2).and_then(|s| s.parse().ok()).unwrap_or(1);
            let iters: u64 = args.get(3).and_then(|s| s.parse().ok()).unwrap_or(200);
            let prop = args.get(4).cloned().unwrap_or_else(|| "C01".to_string());
            let c = props::by_name(&prop).expect("unknown property");
            let rep = campaign::run_campaign(c.as_ref(), seed, Duration::from_secs(600), iters);
            println!("{}", serde_json::to_string_pretty(&rep.to_json()).unwrap());
        }
        _ => usage(),
    }
}
