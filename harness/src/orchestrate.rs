//! Shard orchestration, result merging, known-finding matching, evidence and replay files.

use crate::{campaign::ShardReport, props};
use serde_json::{Value, json};
use std::{
    collections::BTreeSet,
    path::PathBuf,
    process::{Command, Stdio},
    time::{Duration, Instant},
};

fn verif_root() -> PathBuf {
    // .../verif/harness/target/<profile>/vharness -> .../verif
    if let Ok(r) = std::env::var("VERIF_ROOT") {
        return PathBuf::from(r);
    }
    let exe = std::env::current_exe().unwrap();
    exe.ancestors().nth(4).map(PathBuf::from).unwrap_or_else(|| PathBuf::from("/verif"))
}

pub struct PropInfo {
    pub level: &'static str,
    pub rule: &'static str,
    pub assumptions: &'static [&'static str],
    /// (quick seconds per shard, thorough seconds per shard)
    pub budget: (f64, f64),
}

pub fn prop_info(prop: &str) -> PropInfo {
    let sched_rule = "cases: seeded random blocks (program-generated contracts with data-dependent reads/writes) x random GrevmConfig x random perturbation profile, each executed once on the real scheduler with real threads and checked by the EQ/STEP/VER/TS/STALL/READBACK monitors against an independent in-order stock-revm run; distinct = distinct (case hash, interleaving signature) pairs, where the signature hashes the globally ordered exec-end/validation-end/rewind/finality/commit/abort/dependency-release events; non-trivial = at least one re-execution or one committed read resolved from multi-version memory or beneficiary history";
    let common: &'static [&'static str] = &[
        "stock revm 40 run in order is the specification (common-mode behaviour shared with revm is not judged)",
        "hooks compiled in with --features verif do not change scheduler behaviour (they only observe, delay or hold threads at points where a pre-emption is possible)",
        "schedules are sampled (OS scheduler + injected delays/holds), not enumerated",
    ];
    match prop {
        "C04" => PropInfo { level: "fault_enumeration", rule: sched_rule, assumptions: common, budget: (45.0, 600.0) },
        // an orbit is eight runs per block and the policy oracles run stock revm two or three times
        // per block: fewer blocks per second than elsewhere, so a little more time
        "C06" | "C13" => PropInfo { level: "exploration", rule: sched_rule, assumptions: common, budget: (55.0, 600.0) },
        _ => PropInfo { level: "exploration", rule: sched_rule, assumptions: common, budget: (40.0, 600.0) },
    }
}

static EMERGENCY_PATH: std::sync::OnceLock<PathBuf> = std::sync::OnceLock::new();

pub fn set_emergency_path(out: &str) {
    let _ = EMERGENCY_PATH.set(PathBuf::from(format!("{out}.emergency")));
}

/// Persist a diagnosed finding when the shard itself cannot continue (e.g. a hang that cannot be
/// cancelled); the orchestrator picks the file up next to the shard's report.
pub fn emergency_finding(owner: &str, monitor: &str, message: &str, detail: &Value) {
    if let Some(p) = EMERGENCY_PATH.get() {
        let f = json!({
            "property": owner, "monitor": monitor, "owner": owner, "signature": format!("{monitor}:general"),
            "message": message,
            "replay": {"property": owner, "monitor": monitor, "message": message, "detail": detail},
        });
        let _ = std::fs::write(p, serde_json::to_string(&f).unwrap_or_default());
    }
}

pub fn run_shard(prop: &str, tier: &str, seed: u64, shard: u64, budget: Duration, max_iters: u64) -> ShardReport {
    let shard_seed = seed.wrapping_mul(0x9E37_79B9_7F4A_7C15) ^ (shard + 1).wrapping_mul(0xD1B5_4A32_D192_ED03) ^ fx(prop);
    if tier.starts_with("miri") {
        if let Some(c) = props::miri_by_name(prop, tier) {
            return crate::campaign::run_campaign(c.as_ref(), shard_seed, budget, max_iters);
        }
        eprintln!("no Miri campaign for {prop}");
        std::process::exit(2)
    }
    if let Some(c) = props::by_name(prop) {
        return crate::campaign::run_campaign(c.as_ref(), shard_seed, budget, max_iters);
    }
    eprintln!("unknown property {prop}");
    std::process::exit(2)
}

fn fx(s: &str) -> u64 {
    let mut h = crate::rng::Fnv::default();
    h.add_bytes(s.as_bytes());
    h.0
}

fn merge_numbers(into: &mut Value, from: &Value) {
    match (into, from) {
        (Value::Object(a), Value::Object(b)) => {
            for (k, v) in b {
                match a.get_mut(k) {
                    Some(x) => merge_numbers(x, v),
                    None => {
                        a.insert(k.clone(), v.clone());
                    }
                }
            }
        }
        (Value::Number(a), Value::Number(b)) => {
            if let (Some(x), Some(y)) = (a.as_u64(), b.as_u64()) {
                *a = (x + y).into();
            } else if let (Some(x), Some(y)) = (a.as_f64(), b.as_f64()) {
                *a = serde_json::Number::from_f64(x + y).unwrap_or_else(|| 0.into());
            }
        }
        _ => {}
    }
}

struct Known {
    status: String,
    property: String,
    signature: String,
    description: String,
}

fn load_known(root: &PathBuf) -> Vec<Known> {
    let p = root.join("known_findings.json");
    let Ok(s) = std::fs::read_to_string(&p) else { return vec![] };
    let Ok(v) = serde_json::from_str::<Value>(&s) else { return vec![] };
    v.get("findings")
        .and_then(|f| f.as_array())
        .map(|a| {
            a.iter()
                .map(|e| Known {
                    status: e["status"].as_str().unwrap_or("").to_string(),
                    property: e["property"].as_str().unwrap_or("").to_string(),
                    signature: e["signature"].as_str().unwrap_or("").to_string(),
                    description: e["description"].as_str().unwrap_or("").to_string(),
                })
                .collect()
        })
        .unwrap_or_default()
}

pub fn check(prop: &str, tier: &str) -> i32 {
    let root = verif_root();
    let seed: u64 = std::env::var("VERIF_SEED").ok().and_then(|s| s.parse().ok()).unwrap_or(1);
    let tier = match std::env::var("VERIF_TIER").ok().as_deref() {
        Some("quick") if tier.is_empty() => "quick",
        Some("thorough") if tier.is_empty() => "thorough",
        _ => tier,
    };
    let info = prop_info(prop);
    let budget = std::env::var("VERIF_BUDGET_S")
        .ok()
        .and_then(|s| s.parse::<f64>().ok())
        .unwrap_or(if tier == "thorough" { info.budget.1 } else { info.budget.0 });
    let ncpu = std::thread::available_parallelism().map(|n| n.get()).unwrap_or(8);
    let shards: usize = std::env::var("VERIF_SHARDS").ok().and_then(|s| s.parse().ok()).unwrap_or(ncpu.min(16));
    let max_iters: u64 = std::env::var("VERIF_MAX_ITERS").ok().and_then(|s| s.parse().ok()).unwrap_or(u64::MAX / 2);
    let start = Instant::now();
    let exe = std::env::current_exe().unwrap();
    let shard_dir = root.join("harness/target/shards");
    let _ = std::fs::create_dir_all(&shard_dir);
    let mut children = Vec::new();
    for i in 0..shards {
        let out = shard_dir.join(format!("{prop}-{tier}-{i}.json"));
        let _ = std::fs::remove_file(&out);
        let _ = std::fs::remove_file(format!("{}.emergency", out.display()));
        let child = Command::new(&exe)
            .args(["shard", prop, tier, &seed.to_string(), &i.to_string(), &format!("{budget}"), &max_iters.to_string()])
            .arg(&out)
            .stdout(Stdio::null())
            .stderr(Stdio::inherit())
            .spawn()
            .expect("spawn shard");
        children.push((i, child, out));
    }
    // ---- Miri lane: the same campaigns (component drivers; tiny whole-scheduler blocks in the
    // thorough tier) interpreted by Miri: weak-memory behaviours permitted by the declared atomic
    // orderings, pre-emption at arbitrary points, data-race and UB detection.
    let miri_tier = if tier == "thorough" { "miri-thorough" } else { "miri" };
    let miri_enabled = std::env::var("VERIF_MIRI").map(|v| v != "0").unwrap_or(true) && props::miri_by_name(prop, miri_tier).is_some();
    let mut miri_children = Vec::new();
    if miri_enabled {
        let (m_shards, m_iters): (usize, u64) = if tier == "thorough" { (12, 40) } else { (4, 10) };
        let m_shards: usize = std::env::var("VERIF_MIRI_SHARDS").ok().and_then(|s| s.parse().ok()).unwrap_or(m_shards);
        let m_iters: u64 = std::env::var("VERIF_MIRI_ITERS").ok().and_then(|s| s.parse().ok()).unwrap_or(m_iters);
        let m_budget = if tier == "thorough" { budget * 0.8 } else { budget * 0.9 };
        for i in 0..m_shards {
            let out = shard_dir.join(format!("{prop}-{tier}-miri-{i}.json"));
            let _ = std::fs::remove_file(&out);
            let log = std::fs::File::create(shard_dir.join(format!("{prop}-{tier}-miri-{i}.log"))).ok();
            let mut cmd = Command::new("cargo");
            cmd.current_dir(root.join("harness"))
                .args(["+nightly", "miri", "run", "--offline", "-q", "--"])
                .args(["shard", prop, miri_tier, &seed.to_string(), &(1000 + i).to_string(), &format!("{m_budget}"), &m_iters.to_string()])
                .arg(&out)
                .env("MIRIFLAGS", "-Zmiri-tree-borrows -Zmiri-permissive-provenance -Zmiri-disable-isolation -Zmiri-ignore-leaks")
                .env("CARGO_NET_OFFLINE", "true")
                .stdout(Stdio::null());
            match log {
                Some(f) => {
                    cmd.stderr(f);
                }
                None => {
                    cmd.stderr(Stdio::null());
                }
            }
            match cmd.spawn() {
                Ok(child) => miri_children.push((i, child, out)),
                Err(e) => println!("INCONCLUSIVE property={prop} could not start Miri shard {i}: {e}"),
            }
        }
    }
    let mut merged_stats = json!({});
    let mut evaluations = 0u64;
    let mut distinct: BTreeSet<String> = BTreeSet::new();
    let mut distinct_nt: BTreeSet<String> = BTreeSet::new();
    let mut samples: Vec<Value> = Vec::new();
    let mut findings: Vec<Value> = Vec::new();
    let mut inconclusive: Vec<String> = Vec::new();
    let mut other = json!({});
    for (i, mut child, out) in children {
        let status = child.wait().expect("wait shard");
        if !status.success() {
            inconclusive.push(format!("shard {i} exited with {status}"));
        }
        let emergency = PathBuf::from(format!("{}.emergency", out.display()));
        if let Ok(e) = std::fs::read_to_string(&emergency) {
            if let Ok(f) = serde_json::from_str::<Value>(&e) {
                findings.push(f);
            }
            let _ = std::fs::remove_file(&emergency);
        }
        let Ok(s) = std::fs::read_to_string(&out) else {
            inconclusive.push(format!("shard {i} produced no report"));
            continue;
        };
        let Ok(v) = serde_json::from_str::<Value>(&s) else {
            inconclusive.push(format!("shard {i} report unreadable"));
            continue;
        };
        evaluations += v["evaluations"].as_u64().unwrap_or(0);
        for d in v["distinct"].as_array().into_iter().flatten() {
            distinct.insert(d.as_str().unwrap_or("").to_string());
        }
        for d in v["distinct_nontrivial"].as_array().into_iter().flatten() {
            distinct_nt.insert(d.as_str().unwrap_or("").to_string());
        }
        merge_numbers(&mut merged_stats, &v["stats"]);
        for k in ["profiles", "configs", "families", "specs", "extra"] {
            let mut slot = other.get(k).cloned().unwrap_or(json!({}));
            merge_numbers(&mut slot, &v[k]);
            other[k] = slot;
        }
        for k in ["holds", "hold_hits", "delays"] {
            let cur = other.get(k).and_then(|x| x.as_u64()).unwrap_or(0);
            other[k] = (cur + v[k].as_u64().unwrap_or(0)).into();
        }
        for s in v["samples"].as_array().into_iter().flatten() {
            if samples.len() < 4 {
                samples.push(s.clone());
            }
        }
        for f in v["findings"].as_array().into_iter().flatten() {
            findings.push(f.clone());
        }
        for s in v["inconclusive"].as_array().into_iter().flatten() {
            inconclusive.push(s.as_str().unwrap_or("").to_string());
        }
        let _ = std::fs::remove_file(&out);
    }

    let mut miri = json!({"enabled": miri_enabled, "shards": miri_children.len(), "evaluations": 0, "distinct_nontrivial": 0, "extra": {}, "killed": 0});
    if !miri_children.is_empty() {
        let deadline = Instant::now() + Duration::from_secs_f64(budget * 3.0 + 180.0);
        let mut m_eval = 0u64;
        let mut m_nt = 0u64;
        let mut m_extra = json!({});
        let mut killed = 0u64;
        for (i, mut child, out) in miri_children {
            let status = loop {
                match child.try_wait() {
                    Ok(Some(st)) => break Some(st),
                    Ok(None) => {
                        if Instant::now() > deadline {
                            let _ = child.kill();
                            let _ = child.wait();
                            break None;
                        }
                        std::thread::sleep(Duration::from_millis(200));
                    }
                    Err(_) => break None,
                }
            };
            match status {
                None => {
                    killed += 1;
                    inconclusive.push(format!("Miri shard {i} exceeded its wall-clock allowance and was stopped (no verdict from it)"));
                    continue;
                }
                Some(st) if !st.success() => {
                    // Miri reports UB / data races / deadlocks by failing the process
                    let log = std::fs::read_to_string(shard_dir.join(format!("{prop}-{tier}-miri-{i}.log"))).unwrap_or_default();
                    let is_ub = log.contains("Undefined Behavior") || log.contains("Data race") || log.contains("deadlock");
                    let tail: String = log.lines().rev().take(25).collect::<Vec<_>>().into_iter().rev().collect::<Vec<_>>().join("\n");
                    if is_ub {
                        findings.push(json!({
                            "property": prop, "monitor": "MIRI", "owner": prop, "signature": "MIRI:ub-or-race",
                            "message": format!("Miri aborted shard {i}: {}", tail.chars().take(1500).collect::<String>()),
                            "replay": {"property": prop, "monitor": "MIRI", "log_tail": tail, "shard": i, "seed": seed},
                        }));
                    } else {
                        inconclusive.push(format!("Miri shard {i} exited with {st}: {}", tail.chars().take(300).collect::<String>()));
                    }
                }
                _ => {}
            }
            let Ok(sj) = std::fs::read_to_string(&out) else { continue };
            let Ok(v) = serde_json::from_str::<Value>(&sj) else { continue };
            m_eval += v["evaluations"].as_u64().unwrap_or(0);
            m_nt += v["distinct_nontrivial"].as_array().map(|a| a.len() as u64).unwrap_or(0);
            merge_numbers(&mut m_extra, &v["extra"]);
            for f in v["findings"].as_array().into_iter().flatten() {
                let mut f = f.clone();
                f["message"] = format!("[Miri lane] {}", f["message"].as_str().unwrap_or("")).into();
                findings.push(f);
            }
            for d in v["distinct_nontrivial"].as_array().into_iter().flatten() {
                distinct_nt.insert(format!("miri:{}", d.as_str().unwrap_or("")));
            }
            for d in v["distinct"].as_array().into_iter().flatten() {
                distinct.insert(format!("miri:{}", d.as_str().unwrap_or("")));
            }
            for smp in v["samples"].as_array().into_iter().flatten() {
                if samples.len() < 5 {
                    let mut smp = smp.clone();
                    smp["lane"] = "miri".into();
                    samples.push(smp);
                }
            }
            for sx in v["inconclusive"].as_array().into_iter().flatten() {
                inconclusive.push(format!("[Miri lane] {}", sx.as_str().unwrap_or("")));
            }
            let _ = std::fs::remove_file(&out);
        }
        evaluations += m_eval;
        miri["evaluations"] = m_eval.into();
        miri["distinct_nontrivial"] = m_nt.into();
        miri["extra"] = m_extra;
        miri["killed"] = killed.into();
    }

    // ---- verdicts ------------------------------------------------------------------------------
    let known = load_known(&root);
    let replay_dir = root.join("replays");
    let _ = std::fs::create_dir_all(&replay_dir);
    let mut violations = 0u64;
    let mut known_hits: BTreeSet<String> = BTreeSet::new();
    let mut printed = 0;
    for (n, f) in findings.iter().enumerate() {
        let sig = f["signature"].as_str().unwrap_or("");
        let owner = f["owner"].as_str().unwrap_or("");
        if let Some(k) = known.iter().find(|k| k.status == "known" && k.signature == sig && k.property == owner) {
            if known_hits.insert(format!("{}:{}", k.property, k.signature)) {
                println!("KNOWN-FINDING: property={} {} [{}]", k.property, k.description, k.signature);
            }
            continue;
        }
        violations += 1;
        if printed < 5 {
            printed += 1;
            let path = replay_dir.join(format!("{prop}-{tier}-{seed}-{n}.json"));
            let _ = std::fs::write(&path, serde_json::to_string_pretty(&f["replay"]).unwrap());
            println!(
                "VIOLATION property={} replay={} monitor={} owner={} :: {}",
                prop,
                path.display(),
                f["monitor"].as_str().unwrap_or(""),
                owner,
                f["message"].as_str().unwrap_or("").chars().take(600).collect::<String>()
            );
        }
    }
    if !findings.is_empty() {
        let mut classes: std::collections::BTreeMap<String, u64> = Default::default();
        for f in &findings {
            let msg: String = f["message"].as_str().unwrap_or("").chars().filter(|c| !c.is_ascii_digit()).take(70).collect();
            *classes.entry(format!("{} | {}", f["monitor"].as_str().unwrap_or(""), msg)).or_insert(0) += 1;
        }
        for (k, n) in classes {
            println!("  finding class x{n}: {k}");
        }
    }
    for msg in &inconclusive {
        println!("INCONCLUSIVE property={prop} {msg}");
    }
    // A run that did not enter the windows its property is about is not a pass: every property
    // names observations (guard-decisive events, workload counters) that must be non-zero.
    let required: &[&str] = match prop {
        "C02" => &["finality_refused_by_timestamp", "rewinds_after_new_write_location", "validation_conflicts", "validation_claims_dropped_by_status"],
        "C03" => &["exec_errors_invalid_tx", "commit_nonce_fallbacks", "sequential_skips"],
        "C04" => &["runs_on_stale_only_keys", "transient_absorbed", "persistent_err"],
        "C05" => &["coordinator_parks", "panics_propagated", "aborts"],
        "C07" => &["committed_reads_from_beneficiary_history", "history_resolves_with_chain_gt1"],
        "C10" => &["cache_stress_destroy_create_commits", "lifecycle_events_destroy_create_emptytouch", "two_block_runs"],
        "C11" => &["precompile_calls_in_order", "static_context_refusals"],
        "C12" => &["runs_with_halted_delegated_create"],
        "C13" => &["first_reserve_violations_checked"],
        "C14" => &["histories_with_overlapping_calls", "rejected_calls"],
        "C15" => &["histories_with_rewind_overlapping_claim", "histories_with_out_of_order_publish"],
        "C16" => &["parked_behind_commit_boundary", "claims_by_direct_handoff", "dep_released_by_commit"],
        "C17" => &["notify_before_registration", "notify_between_check_and_park", "notify_while_parked"],
        _ => &[],
    };
    let lookup = |k: &str| -> u64 {
        merged_stats.get(k).and_then(|v| v.as_u64()).or_else(|| other.get("extra").and_then(|e| e.get(k)).and_then(|v| v.as_u64())).unwrap_or(0)
    };
    let missing: Vec<&str> = required.iter().copied().filter(|k| lookup(k) == 0).collect();
    if !missing.is_empty() && violations == 0 {
        println!("INCONCLUSIVE property={prop} required observations were not made in this run: {missing:?}");
        inconclusive.push(format!("required observations missing: {missing:?}"));
    }
    let observed_enough = evaluations > 0 && distinct_nt.len() >= 2;
    if !observed_enough {
        println!("INCONCLUSIVE property={prop} the run observed too little (evaluations={evaluations}, distinct non-trivial={})", distinct_nt.len());
    }
    let wall = start.elapsed().as_secs_f64();
    let verdict = if violations > 0 {
        "violated"
    } else if !observed_enough || !inconclusive.is_empty() {
        "inconclusive-or-partial"
    } else {
        "held-on-observed"
    };
    let evidence = json!({
        "property_id": prop,
        "tier": tier,
        "seed": seed,
        "level": info.level,
        "coverage": {
            "evaluations": evaluations,
            "distinct_nontrivial": distinct_nt.len(),
            "distinct_total": distinct.len(),
            "rule": info.rule,
            "samples": samples,
            "exhaustive": false,
            "observed": merged_stats,
            "workload": other,
            "miri_lane": miri,
            "shards": shards,
            "budget_s_per_shard": budget,
            "verdict": verdict,
            "inconclusive": inconclusive,
            "known_findings_seen": known_hits.iter().collect::<Vec<_>>(),
        },
        "assumptions": info.assumptions,
        "wall_s": wall,
        "violations": violations,
    });
    let ev_dir = root.join("evidence");
    let _ = std::fs::create_dir_all(&ev_dir);
    std::fs::write(ev_dir.join(format!("{prop}.json")), serde_json::to_string_pretty(&evidence).unwrap()).unwrap();
    println!(
        "{prop} {tier} seed={seed}: {evaluations} monitored executions, {} distinct non-trivial (case, interleaving) pairs, {} violations, verdict={verdict}, {:.1}s",
        distinct_nt.len(),
        violations,
        wall
    );
    if violations > 0 { 1 } else { 0 }
}

pub fn replay(file: &str) -> i32 {
    let Ok(s) = std::fs::read_to_string(file) else {
        eprintln!("cannot read {file}");
        return 2;
    };
    let v: Value = serde_json::from_str(&s).unwrap_or(json!({}));
    let prop = v["property"].as_str().unwrap_or("");
    let iter_seed = v["iter_seed"].as_u64().unwrap_or(0);
    println!("recorded: property={prop} monitor={} message={}", v["monitor"], v["message"]);
    let Some(c) = props::by_name(prop) else {
        println!("no campaign named {prop}; the recorded trace is the witness");
        return 0;
    };
    let mut hits = 0;
    let tries = 200;
    for _ in 0..tries {
        let mut rep = ShardReport::default();
        c.iterate(iter_seed, &mut rep, Instant::now() + Duration::from_secs(60));
        if let Some(f) = rep.findings.first() {
            hits += 1;
            if hits == 1 {
                println!("reproduced: monitor={} {}", f.monitor, f.message);
            }
        }
    }
    println!("re-ran the recorded block and profile {tries} times on the current tree: {hits} violating runs");
    if hits > 0 { 1 } else { 0 }
}
