//! C11 (custom precompiles through the state façade), C12 (delegated-CREATE guard) and
//! C13 (delegated-balance reserve): oracles built on *stock* revm plus inspectors.

use crate::{
    campaign::{Campaign, IterCtx, ProfileWeights, ShardReport, check_equal, pick_runcfg, record, stall_violation},
    compare::canon_delta,
    db::{FaultDb, FaultPlan},
    monitors::{TraceInput, Violation, check_trace},
    obs::{self, Class},
    progs::Mix,
    reference::{RefOptions, RefRun, run_reference},
    rng::Rng,
    run::{cfg_env, probe_addrs, probe_slots, run_grevm},
    world::{ALL_SPECS, Case, GenParams, Layout, PRAGUE_SPECS, generate, table_addr},
};
use grevm::{
    DelegatedSafetyConfig, DynParallelPrecompile, ParallelPrecompileError, ParallelPrecompileInput,
    TxExecutionOutcome,
};
use revm::{
    bytecode::opcode::{CREATE, CREATE2},
    interpreter::{
        CallInputs, CallOutcome, CreateInputs, CreateOutcome, Interpreter,
        interpreter::EthInterpreter,
        interpreter_types::{InputsTr, Jumps, RuntimeFlag},
    },
    precompile::{PrecompileError, PrecompileHalt, PrecompileId, PrecompileOutput},
};
use revm_context::{ContextTr, JournalTr, context_interface::Transaction, result::ExecutionResult};
use revm_inspector::Inspector;
use revm_primitives::{Address, Bytes, U256, hardfork::SpecId};
use std::{
    collections::BTreeMap,
    sync::{
        Arc,
        atomic::{AtomicU64, Ordering},
    },
    time::Instant,
};

fn vio(monitor: &'static str, owner: &'static str, message: String) -> Violation {
    Violation { monitor, owner, message }
}

fn reference_with<I>(case: &Case, precompiles: &[(Address, DynParallelPrecompile)], with_reverts: bool, inspector: I) -> (RefRun, I)
where
    I: Inspector<crate::reference::RefCtx<Arc<FaultDb>>>,
{
    reference_with_raw(case, precompiles, &[], with_reverts, inspector)
}

fn reference_with_raw<I>(
    case: &Case,
    precompiles: &[(Address, DynParallelPrecompile)],
    raw_precompiles: &[(Address, alloy_evm::precompiles::DynPrecompile)],
    with_reverts: bool,
    inspector: I,
) -> (RefRun, I)
where
    I: Inspector<crate::reference::RefCtx<Arc<FaultDb>>>,
{
    let db = Arc::new(FaultDb::new(case.db.clone(), FaultPlan::default()));
    let db2 = db.clone();
    let addrs = probe_addrs(case);
    let slots = probe_slots(case);
    let opts = RefOptions {
        preload_beneficiary: true,
        with_reverts,
        precompiles,
        raw_precompiles,
        probe_addrs: &addrs,
        probe_slots: &slots,
        before_readback: &move || db2.disarm(),
        on_tx: &|_| {},
    };
    run_reference(db, &cfg_env(case), &case.block, &case.txs, &opts, inspector)
}

// =================================================================================================
// C11
// =================================================================================================

/// Counters shared by all clones / attempts of the test precompiles.
#[derive(Default)]
pub struct PcStats {
    pub calls: AtomicU64,
    pub inconsistent_reads: AtomicU64,
    pub static_refusals: AtomicU64,
    pub ignored_faults: AtomicU64,
    pub fatal_returns: AtomicU64,
    pub panics: AtomicU64,
}

fn word(data: &[u8], i: usize) -> U256 {
    let mut buf = [0u8; 32];
    if data.len() >= (i + 1) * 32 {
        buf.copy_from_slice(&data[i * 32..(i + 1) * 32]);
    }
    U256::from_be_bytes(buf)
}

fn small(x: U256, m: u64) -> u64 {
    (x % U256::from(m.max(1))).to::<u64>()
}

fn out(v: U256, gas: u64, reservoir: u64) -> PrecompileOutput {
    PrecompileOutput::new(gas, Bytes::from(v.to_be_bytes::<32>().to_vec()), reservoir)
}

pub fn test_precompiles(layout: &Layout, slots: u64, stats: Arc<PcStats>) -> Vec<(Address, DynParallelPrecompile)> {
    let table = layout.table;
    let mut v = Vec::new();
    // P0 "ledger": reads then data-dependent writes, all through the façade
    {
        let stats = stats.clone();
        v.push((
            layout.pc(0),
            DynParallelPrecompile::new(PrecompileId::custom("verif-ledger"), move |input: &mut ParallelPrecompileInput<'_>| {
                stats.calls.fetch_add(1, Ordering::Relaxed);
                let reservoir = input.reservoir();
                if input.gas() < 700 {
                    return Err(ParallelPrecompileError::Halt(PrecompileHalt::OutOfGas));
                }
                let data = input.data().to_vec();
                let a = table_addr(small(word(&data, 0), table));
                let b = table_addr(small(word(&data, 1), table));
                let slot = U256::from(small(word(&data, 2), slots));
                let mode = small(word(&data, 3), 4);
                let bal = input.state().balance(a)?.data;
                let val = input.state().sload(b, slot)?.data;
                // repeated reads inside one attempt must agree
                let bal2 = input.state().balance(a)?.data;
                let val2 = input.state().sload(b, slot)?.data;
                if bal != bal2 || val != val2 {
                    stats.inconsistent_reads.fetch_add(1, Ordering::Relaxed);
                }
                match mode {
                    0 => {
                        input.state().set_balance(a, bal.saturating_add(U256::from(1u64)))?;
                        // read-your-writes
                        let bal3 = input.state().balance(a)?.data;
                        if bal3 != bal.saturating_add(U256::from(1u64)) {
                            stats.inconsistent_reads.fetch_add(1, Ordering::Relaxed);
                        }
                    }
                    1 => {
                        input.state().sstore(b, slot, val.wrapping_add(U256::from(1u64)))?;
                        let val3 = input.state().sload(b, slot)?.data;
                        if val3 != val.wrapping_add(U256::from(1u64)) {
                            stats.inconsistent_reads.fetch_add(1, Ordering::Relaxed);
                        }
                    }
                    _ => {}
                }
                Ok(out(bal ^ val, 700, reservoir))
            }),
        ));
    }
    // P1 "echo": reads only
    {
        let stats = stats.clone();
        v.push((
            layout.pc(1),
            DynParallelPrecompile::new(PrecompileId::custom("verif-echo"), move |input: &mut ParallelPrecompileInput<'_>| {
                stats.calls.fetch_add(1, Ordering::Relaxed);
                let reservoir = input.reservoir();
                let data = input.data().to_vec();
                let a = table_addr(small(word(&data, 0), table));
                let slot = U256::from(small(word(&data, 1), slots));
                let bal = input.state().balance(a)?.data;
                let val = input.state().sload(a, slot)?.data;
                Ok(out(bal.wrapping_add(val), 300, reservoir))
            }),
        ));
    }
    // P2 "static-mutator / fault-ignorer": always tries to write and swallows the façade's error
    {
        let stats = stats.clone();
        v.push((
            layout.pc(2),
            DynParallelPrecompile::new(PrecompileId::custom("verif-mutator"), move |input: &mut ParallelPrecompileInput<'_>| {
                stats.calls.fetch_add(1, Ordering::Relaxed);
                let reservoir = input.reservoir();
                let data = input.data().to_vec();
                let a = table_addr(small(word(&data, 0), table));
                let slot = U256::from(small(word(&data, 1), slots));
                let is_static = input.is_static();
                let r1 = input.state().sstore(a, slot, word(&data, 2));
                let r2 = input.state().set_balance(a, U256::from(small(word(&data, 3), 1000)));
                if r1.is_err() || r2.is_err() {
                    stats.ignored_faults.fetch_add(1, Ordering::Relaxed);
                    if is_static {
                        stats.static_refusals.fetch_add(1, Ordering::Relaxed);
                    }
                }
                // deliberately ignores both errors
                Ok(out(U256::from(1u64), 400, reservoir))
            }),
        ));
    }
    // P3 "fatal-if": state-dependent fatal error
    {
        let stats = stats.clone();
        v.push((
            layout.pc(3),
            DynParallelPrecompile::new(PrecompileId::custom("verif-fatal-if"), move |input: &mut ParallelPrecompileInput<'_>| {
                stats.calls.fetch_add(1, Ordering::Relaxed);
                let reservoir = input.reservoir();
                let data = input.data().to_vec();
                let a = table_addr(small(word(&data, 0), table));
                let val = input.state().sload(a, U256::ZERO)?.data;
                if val % U256::from(4u64) == U256::from(3u64) {
                    stats.fatal_returns.fetch_add(1, Ordering::Relaxed);
                    return Err(ParallelPrecompileError::Fatal(PrecompileError::Fatal("verif fatal-if: slot 0 is 3 mod 4".into())));
                }
                Ok(out(val, 200, reservoir))
            }),
        ));
    }
    v
}

/// The same four precompiles written directly against Alloy's unrestricted `PrecompileInput` /
/// `EvmInternals`, with the semantics the facade promises spelled out by hand: a mutation in a
/// static context halts the precompile *before any change*, even if the implementation would have
/// ignored the refusal; everything goes through the journal. Nothing of grevm's `precompile.rs`
/// (facade, sticky fault, adapter, cache switch) is involved, so a defect there cannot cancel out.
pub fn raw_reference_precompiles(layout: &Layout, slots: u64, stats: Arc<PcStats>) -> Vec<(Address, alloy_evm::precompiles::DynPrecompile)> {
    use alloy_evm::precompiles::{DynPrecompile, PrecompileInput};
    let table = layout.table;
    const STATIC_MSG: &str = "state change during static call";
    fn fatal(e: impl std::fmt::Display) -> PrecompileError {
        PrecompileError::Fatal(format!("reference precompile: {e}"))
    }
    let mut v = Vec::new();
    {
        let stats = stats.clone();
        v.push((
            layout.pc(0),
            DynPrecompile::new_stateful(PrecompileId::custom("verif-ledger"), move |mut input: PrecompileInput<'_>| {
                stats.calls.fetch_add(1, Ordering::Relaxed);
                let reservoir = input.reservoir;
                if input.gas < 700 {
                    return Ok(PrecompileOutput::halt(PrecompileHalt::OutOfGas, reservoir));
                }
                let data = input.data.to_vec();
                let a = table_addr(small(word(&data, 0), table));
                let b = table_addr(small(word(&data, 1), table));
                let slot = U256::from(small(word(&data, 2), slots));
                let mode = small(word(&data, 3), 4);
                let bal = input.internals.load_account(a).map_err(fatal)?.data.info.balance;
                let val = input.internals.sload(b, slot).map_err(fatal)?.data;
                match mode {
                    0 | 1 if input.is_static => {
                        return Ok(PrecompileOutput::halt(PrecompileHalt::other_static(STATIC_MSG), reservoir));
                    }
                    0 => {
                        input.internals.load_account_mut(a).map_err(fatal)?.data.set_balance(bal.saturating_add(U256::from(1u64)));
                    }
                    1 => {
                        input.internals.sstore(b, slot, val.wrapping_add(U256::from(1u64))).map_err(fatal)?;
                    }
                    _ => {}
                }
                Ok(out(bal ^ val, 700, reservoir))
            }),
        ));
    }
    {
        let stats = stats.clone();
        v.push((
            layout.pc(1),
            DynPrecompile::new_stateful(PrecompileId::custom("verif-echo"), move |mut input: PrecompileInput<'_>| {
                stats.calls.fetch_add(1, Ordering::Relaxed);
                let reservoir = input.reservoir;
                let data = input.data.to_vec();
                let a = table_addr(small(word(&data, 0), table));
                let slot = U256::from(small(word(&data, 1), slots));
                let bal = input.internals.load_account(a).map_err(fatal)?.data.info.balance;
                let val = input.internals.sload(a, slot).map_err(fatal)?.data;
                Ok(out(bal.wrapping_add(val), 300, reservoir))
            }),
        ));
    }
    {
        let stats = stats.clone();
        v.push((
            layout.pc(2),
            DynPrecompile::new_stateful(PrecompileId::custom("verif-mutator"), move |mut input: PrecompileInput<'_>| {
                stats.calls.fetch_add(1, Ordering::Relaxed);
                let reservoir = input.reservoir;
                if input.is_static {
                    return Ok(PrecompileOutput::halt(PrecompileHalt::other_static(STATIC_MSG), reservoir));
                }
                let data = input.data.to_vec();
                let a = table_addr(small(word(&data, 0), table));
                let slot = U256::from(small(word(&data, 1), slots));
                input.internals.sstore(a, slot, word(&data, 2)).map_err(fatal)?;
                input.internals.load_account_mut(a).map_err(fatal)?.data.set_balance(U256::from(small(word(&data, 3), 1000)));
                Ok(out(U256::from(1u64), 400, reservoir))
            }),
        ));
    }
    {
        let stats = stats.clone();
        v.push((
            layout.pc(3),
            DynPrecompile::new_stateful(PrecompileId::custom("verif-fatal-if"), move |mut input: PrecompileInput<'_>| {
                stats.calls.fetch_add(1, Ordering::Relaxed);
                let reservoir = input.reservoir;
                let data = input.data.to_vec();
                let a = table_addr(small(word(&data, 0), table));
                let val = input.internals.sload(a, U256::ZERO).map_err(fatal)?.data;
                if val % U256::from(4u64) == U256::from(3u64) {
                    return Err(PrecompileError::Fatal("verif fatal-if: slot 0 is 3 mod 4".into()));
                }
                Ok(out(val, 200, reservoir))
            }),
        ));
    }
    v
}

pub struct C11;

impl Campaign for C11 {
    fn prop(&self) -> &'static str {
        "C11"
    }
    fn iterate(&self, iter_seed: u64, rep: &mut ShardReport, _deadline: Instant) {
        let mut r = Rng::new(iter_seed);
        let params = GenParams {
            family: "precompiles",
            specs: crate::world::MODERN_SPECS,
            txs: (3, 14),
            n_eoa: if r.chance(1, 2) { 4 } else { 3 },
            n_con: 2,
            n_precompiles: 4,
            mix: Mix { call: 14, staticcall: if r.chance(1, 2) { 6 } else { 14 }, delegatecall: 1, sload: 8, sstore: 8, balance: 4, coinbase: 2, terminate: 3, slots: 3, vmax: 3, len: (4, 12), ..Mix::default() },
            kind_w: [10, 1, 0, 8],
            ben_roles: &[crate::world::BenRole::PlainEoa, crate::world::BenRole::Sender],
            ..GenParams::default()
        };
        let mut case = generate(&params, r.next());
        // Some transactions call the precompiles directly with arguments aimed at code-less
        // accounts (the empty account, the absent one, an EOA): only the facade can give such an
        // account storage, empty it again (balance := 0 => EIP-161 removal, which also wipes that
        // storage) and read the slot back later in the block.
        if r.chance(2, 3) {
            let l = case.layout.clone();
            let mut txs = (*case.txs).clone();
            let victims = [l.idx_empty(), l.idx_absent(), l.idx_empty(), 0u64];
            for tx in txs.iter_mut() {
                if !matches!(tx.kind, revm_primitives::TxKind::Call(_)) || tx.tx_type == 4 || !r.chance(2, 5) {
                    continue;
                }
                let k = r.below(4);
                let a = *r.pick(&victims);
                let words = match k {
                    0 => [a, *r.pick(&victims), r.below(case.slots), r.below(4)],
                    1 => [a, r.below(case.slots), 0, 0],
                    2 => [a, r.below(case.slots), r.below(4), *r.pick(&[0u64, 0, 1, 5])],
                    _ => [a, 0, 0, 0],
                };
                tx.kind = revm_primitives::TxKind::Call(l.pc(k));
                tx.value = U256::ZERO;
                tx.data = crate::world::calldata(&words);
            }
            case.hash = crate::world::case_hash(case.spec, &case.db, &case.block, &txs, case.disable_nonce_check);
            case.txs = Arc::new(txs);
            rep.bump("blocks_with_direct_precompile_calls", 1);
        }
        let stats = Arc::new(PcStats::default());
        let pcs = test_precompiles(&case.layout, case.slots, stats.clone());
        let pw = ProfileWeights {
            focus_classes: &[Class::Mv, Class::ExecPublish, Class::ValidateScan, Class::ExecStart],
            directors: obs::D_EXEC_PUBLISH | obs::D_VALIDATE_SCAN | obs::D_COMMIT_HEAD | obs::D_CLAIM_LOCK | obs::D_FINISH_AT_HEAD,
            ..ProfileWeights::default()
        };
        let rc = pick_runcfg(&mut r, case.txs.len(), &pw, 15);
        // Two references: (a) stock revm with the *same* facade-based precompiles behind grevm's
        // adapter (what "in-order execution" means for a block with custom precompiles), and
        // (b) stock revm with hand-written raw precompiles that do not touch grevm's facade at
        // all. (a) and (b) must agree with each other and with the parallel run.
        let (reference, _) = reference_with(&case, &pcs, rc.with_reverts, revm_inspector::NoOpInspector {});
        let ref_calls = stats.calls.load(Ordering::Relaxed);
        let raw_stats = Arc::new(PcStats::default());
        let raw = raw_reference_precompiles(&case.layout, case.slots, raw_stats.clone());
        let (raw_reference, _) = reference_with_raw(&case, &[], &raw, rc.with_reverts, revm_inspector::NoOpInspector {});
        let plan = FaultPlan::default();
        let out = run_grevm(&case, &rc, &plan, Some(Arc::new(pcs)));
        let mut violations = Vec::new();
        if let Some(sv) = stall_violation(&out) {
            violations.push(sv);
        }
        if let Some(p) = &out.panic {
            violations.push(vio("PANIC", "C05", format!("execute() panicked: {p}")));
        }
        let (tv, tstats) = check_trace(&TraceInput {
            trace: &out.trace,
            n_txs: case.txs.len(),
            outcomes: &out.outcomes,
            reference: Some(&reference),
            errored: out.result.is_err(),
        });
        if out.stall.is_none() && out.panic.is_none() {
            for mut v in check_equal(&reference, &out) {
                if v.owner == "C01" {
                    v.owner = "C11";
                }
                violations.push(v);
            }
            violations.extend(tv);
            // the facade-independent reference
            let mut facade_diffs = Vec::new();
            if raw_reference.error != reference.error {
                facade_diffs.push(format!("in-order result {:?} vs {:?}", reference.error, raw_reference.error));
            }
            if let Some(d) = crate::compare::diff_outcomes(&raw_reference.outcomes, &reference.outcomes) {
                facade_diffs.push(d);
            }
            if let Some(d) = crate::compare::diff_bundle(&raw_reference.bundle, &reference.bundle) {
                facade_diffs.push(d);
            }
            if let Some(d) = facade_diffs.first() {
                violations.push(vio(
                    "PRECOMPILE",
                    "C11",
                    format!("in-order execution through grevm's precompile facade/adapter differs from the same precompiles written against the raw journal interface (static refusal, sticky fault, halt mapping): {d}"),
                ));
            }
            rep.bump("raw_reference_precompile_calls", raw_stats.calls.load(Ordering::Relaxed));
            let bad = stats.inconsistent_reads.load(Ordering::Relaxed);
            if bad > 0 {
                violations.push(vio("PRECOMPILE", "C11", format!("{bad} repeated façade reads inside one precompile attempt disagreed (or a write was not read back)")));
            }
        }
        rep.bump("precompile_calls_in_order", ref_calls);
        rep.bump("precompile_calls_parallel_incl_retries", stats.calls.load(Ordering::Relaxed) - ref_calls);
        rep.bump("static_context_refusals", stats.static_refusals.load(Ordering::Relaxed));
        rep.bump("facade_errors_ignored_by_implementation", stats.ignored_faults.load(Ordering::Relaxed));
        rep.bump("state_dependent_fatal_returns", stats.fatal_returns.load(Ordering::Relaxed));
        let nontrivial = tstats.nontrivial() && ref_calls > 0;
        let ctx = IterCtx { prop: "C11", iter_seed, family_idx: 0 };
        record(rep, &ctx, &case, &rc, &plan, &out, &tstats, violations, nontrivial);
    }
}

/// C05 (part): a custom precompile that panics on a state-dependent condition. The panic must
/// reach the caller of execute() with its payload, every scheduler thread must end, nothing stalls.
pub struct C05PrecompilePanic;

impl Campaign for C05PrecompilePanic {
    fn prop(&self) -> &'static str {
        "C05"
    }
    fn iterate(&self, iter_seed: u64, rep: &mut ShardReport, _deadline: Instant) {
        let mut r = Rng::new(iter_seed);
        let params = GenParams {
            family: "precompile-panic",
            specs: crate::world::MODERN_SPECS,
            txs: (3, 14),
            n_eoa: 4,
            n_con: 2,
            n_precompiles: 4,
            mix: Mix { call: 14, staticcall: 4, sload: 8, sstore: 8, slots: 3, vmax: 1, len: (3, 10), ..Mix::default() },
            kind_w: [10, 1, 0, 8],
            ..GenParams::default()
        };
        let case = generate(&params, r.next());
        let stats = Arc::new(PcStats::default());
        let mut pcs = test_precompiles(&case.layout, case.slots, stats.clone());
        // replace the fatal-if slot by a panicker
        let table = case.layout.table;
        let st2 = stats.clone();
        pcs[3] = (
            case.layout.pc(3),
            DynParallelPrecompile::new(PrecompileId::custom("verif-panicker"), move |input: &mut ParallelPrecompileInput<'_>| {
                st2.calls.fetch_add(1, Ordering::Relaxed);
                let reservoir = input.reservoir();
                let data = input.data().to_vec();
                let a = table_addr(small(word(&data, 0), table));
                let val = input.state().sload(a, U256::ZERO)?.data;
                if val % U256::from(3u64) == U256::from(2u64) {
                    st2.panics.fetch_add(1, Ordering::Relaxed);
                    panic!("{} precompile at slot value {val}", crate::db::PANIC_PREFIX);
                }
                Ok(out(val, 200, reservoir))
            }),
        );
        let pw = ProfileWeights {
            focus_classes: &[Class::Wait, Class::Abort, Class::Dep, Class::Commit],
            directors: obs::D_COORD | obs::D_WAIT | obs::D_AFTER_NOTIFY | obs::D_FINISH_AT_HEAD,
            ..ProfileWeights::default()
        };
        let rc = pick_runcfg(&mut r, case.txs.len(), &pw, 10);
        let plan = FaultPlan::default();
        let out = run_grevm(&case, &rc, &plan, Some(Arc::new(pcs)));
        let mut violations = Vec::new();
        if let Some(sv) = stall_violation(&out) {
            violations.push(sv);
        }
        let (tv, tstats) = check_trace(&TraceInput { trace: &out.trace, n_txs: case.txs.len(), outcomes: &out.outcomes, reference: None, errored: out.result.is_err() });
        let fired = stats.panics.load(Ordering::Relaxed);
        match (&out.panic, fired) {
            (Some(msg), f) if f > 0 => {
                rep.bump("panics_propagated", 1);
                rep.bump("precompile_panics_propagated", 1);
                if !msg.contains(crate::db::PANIC_PREFIX) || !msg.contains("precompile") {
                    violations.push(vio("PANIC", "C05", format!("the precompile's panic reached the caller with a different payload: {msg}")));
                }
            }
            (None, f) if f > 0 => violations.push(vio(
                "PANIC",
                "C05",
                format!("a custom precompile panicked {f} time(s) inside a worker but execute() returned {:?} instead of unwinding", out.result),
            )),
            (Some(msg), _) => violations.push(vio("PANIC", "C05", format!("execute() panicked without an injected panic: {msg}"))),
            _ => {}
        }
        if out.stall.is_none() && out.panic.is_none() {
            violations.extend(tv);
        }
        rep.bump(
            match &out.result {
                Ok(()) => "returned_ok",
                Err((k, _)) if *k == usize::MAX => "returned_by_unwinding",
                Err(_) => "returned_err",
            },
            1,
        );
        let nontrivial = fired > 0 || (tstats.parks > 0 && tstats.dep_cleared_by_remove + tstats.dep_commit_release > 0);
        let ctx = IterCtx { prop: "C05", iter_seed, family_idx: 0 };
        record(rep, &ctx, &case, &rc, &plan, &out, &tstats, violations, nontrivial);
    }
}

// =================================================================================================
// C12
// =================================================================================================

/// Watches (and optionally enforces, on stock revm) the delegated-CREATE rule:
/// CREATE/CREATE2 in a non-static frame (CREATE2 only from Petersburg) whose *target* account
/// carries an EIP-7702 designator halts that frame as not-activated.
#[derive(Default)]
pub struct CreateWatch {
    pub enforce: bool,
    pub prague: bool,
    pub creates_seen: u64,
    pub delegated_creates: u64,
}

impl<CTX: ContextTr<Journal: JournalTr<State = revm_state::EvmState>>> Inspector<CTX, EthInterpreter> for CreateWatch {
    fn step(&mut self, interp: &mut Interpreter<EthInterpreter>, context: &mut CTX) {
        let op = interp.bytecode.opcode();
        if op != CREATE && op != CREATE2 {
            return;
        }
        self.creates_seen += 1;
        if !self.prague || interp.runtime_flag.is_static() {
            return;
        }
        if op == CREATE2 && !interp.runtime_flag.spec_id().is_enabled_in(SpecId::PETERSBURG) {
            return;
        }
        let target = interp.input.target_address();
        // read-only look at the journal: the executing account is loaded with its code
        let delegated = context
            .journal_ref()
            .evm_state()
            .get(&target)
            .and_then(|a| a.info.code.as_ref())
            .is_some_and(|c| c.is_eip7702());
        if delegated {
            self.delegated_creates += 1;
            if self.enforce {
                interp.halt_not_activated();
            }
        }
    }
}

pub struct C12;

fn create_family(name: &'static str, specs: &'static [SpecId]) -> GenParams {
    GenParams {
        family: name,
        specs,
        txs: (3, 12),
        n_eoa: 4,
        n_con: 3,
        mix: Mix { create: 12, call: 10, staticcall: 3, delegatecall: 3, sload: 5, sstore: 5, extcode: 3, slots: 3, vmax: 3, len: (3, 10), ..Mix::default() },
        kind_w: [5, 1, 2, 12],
        auth_pct: 30,
        pre_delegated: 2,
        hot_sender_pct: 40,
        ..GenParams::default()
    }
}

impl Campaign for C12 {
    fn prop(&self) -> &'static str {
        "C12"
    }
    fn iterate(&self, iter_seed: u64, rep: &mut ShardReport, _deadline: Instant) {
        let mut r = Rng::new(iter_seed);
        let params = if r.chance(3, 4) { create_family("delegated-creates", PRAGUE_SPECS) } else { create_family("creates-all-forks", ALL_SPECS) };
        let case = generate(&params, r.next());
        let prague = case.spec.is_enabled_in(SpecId::PRAGUE);
        let pw = ProfileWeights::default();
        let mut rc = pick_runcfg(&mut r, case.txs.len(), &pw, 25);
        let guard_on = r.chance(4, 5);
        rc.safety = if guard_on { DelegatedSafetyConfig::create_only() } else { DelegatedSafetyConfig::disabled() };
        // stock run that only watches, and stock run that enforces the rule
        let (stock, watch) = reference_with(&case, &[], rc.with_reverts, CreateWatch { enforce: false, prague, ..Default::default() });
        let (enforced, watch2) = reference_with(&case, &[], rc.with_reverts, CreateWatch { enforce: true, prague, ..Default::default() });
        let plan = FaultPlan::default();
        let out = run_grevm(&case, &rc, &plan, None);
        let mut violations = Vec::new();
        if let Some(sv) = stall_violation(&out) {
            violations.push(sv);
        }
        if let Some(p) = &out.panic {
            violations.push(vio("PANIC", "C05", format!("execute() panicked: {p}")));
        }
        // which reference applies: guard effective => the enforcing stock run; otherwise plain stock
        let effective = guard_on && prague;
        let reference = if effective { &enforced } else { &stock };
        let (tv, tstats) = check_trace(&TraceInput {
            trace: &out.trace,
            n_txs: case.txs.len(),
            outcomes: &out.outcomes,
            reference: Some(reference),
            errored: out.result.is_err(),
        });
        if out.stall.is_none() && out.panic.is_none() {
            for mut v in check_equal(reference, &out) {
                v.owner = "C12";
                v.message = format!(
                    "guard {} on {:?} ({} delegated-context creates in the stock run): {}",
                    if guard_on { "on" } else { "off" },
                    case.spec,
                    watch.delegated_creates,
                    v.message
                );
                violations.push(v);
            }
            for mut v in tv {
                if v.monitor == "STEP" {
                    v.owner = "C12";
                }
                violations.push(v);
            }
            // oracle 1: with no delegated-context create anywhere, the guarded engine is bit-identical to stock
            if effective && watch.delegated_creates == 0 {
                for mut v in check_equal(&stock, &out) {
                    v.owner = "C12";
                    v.message = format!("no create ran in a delegated context, yet guard-on differs from stock revm: {}", v.message);
                    violations.push(v);
                }
            }
        }
        rep.bump("create_opcodes_seen_in_stock_run", watch.creates_seen);
        rep.bump("delegated_context_creates_in_stock_run", watch.delegated_creates);
        rep.bump("delegated_context_creates_halted_by_reference", watch2.delegated_creates);
        rep.bump(if effective { "runs_guard_effective" } else { "runs_guard_inert_or_off" }, 1);
        if effective && watch.delegated_creates > 0 {
            rep.bump("runs_with_halted_delegated_create", 1);
        }
        let nontrivial = watch.creates_seen > 0;
        let ctx = IterCtx { prop: "C12", iter_seed, family_idx: 0 };
        record(rep, &ctx, &case, &rc, &plan, &out, &tstats, violations, nontrivial);
    }
}

// =================================================================================================
// C13
// =================================================================================================

#[derive(Clone, Debug)]
struct Debit {
    source: Address,
    before: U256,
}

/// Independent statement of the reserve rule on stock revm: records, per transaction, the
/// surviving value-moving operations (CALL value, CREATE endowment, SELFDESTRUCT) excluding the
/// top-level transaction value, with the payer's balance immediately before each.
#[derive(Default)]
pub struct DebitWatch {
    frames: Vec<Vec<Debit>>,
    /// surviving debits of the transaction being executed, in execution order
    pub surviving: Vec<(Address, U256)>,
    /// "twin" mode: when the root frame is about to end successfully, turn that end into a
    /// top-level REVERT with empty output *after* the last instruction has been charged. Stock revm
    /// then produces, by its own rules, what "a charged top-level revert that keeps the nonce
    /// bump, authorisation effects and authorisation refund and discards all other execution
    /// state" means for this transaction.
    pub force_root_revert: bool,
    /// whether the twin mode actually rewrote the end of the root frame
    pub forced: bool,
}

impl DebitWatch {
    fn balance<CTX: ContextTr<Journal: JournalTr<State = revm_state::EvmState>>>(context: &CTX, a: Address) -> U256 {
        context.journal_ref().evm_state().get(&a).map(|acc| acc.info.balance).unwrap_or_default()
    }
    fn close(&mut self, ok: bool) {
        let list = self.frames.pop().unwrap_or_default();
        if ok {
            match self.frames.last_mut() {
                Some(parent) => parent.extend(list),
                None => self.surviving.extend(list.into_iter().map(|d| (d.source, d.before))),
            }
        }
    }
    pub fn begin_tx(&mut self) {
        self.frames.clear();
        self.surviving.clear();
        self.forced = false;
    }
}

impl<CTX: ContextTr<Journal: JournalTr<State = revm_state::EvmState>>> Inspector<CTX, EthInterpreter> for DebitWatch {
    fn step_end(&mut self, interp: &mut Interpreter<EthInterpreter>, _context: &mut CTX) {
        use revm::interpreter::{InstructionResult, InterpreterAction, interpreter_types::LoopControl};
        if self.force_root_revert && self.frames.len() == 1 {
            if let Some(InterpreterAction::Return(res)) = interp.bytecode.action() &&
                res.result.is_ok()
            {
                res.result = InstructionResult::Revert;
                res.output = Bytes::new();
                self.forced = true;
            }
        }
    }
    fn call(&mut self, context: &mut CTX, inputs: &mut CallInputs) -> Option<CallOutcome> {
        if std::env::var("VERIF_DEBUG").is_ok() {
            eprintln!("  call depth={} {:?} caller={} target={} value={:?} caller_balance={}", self.frames.len(), inputs.scheme, inputs.caller, inputs.target_address, inputs.value, Self::balance(context, inputs.caller));
        }
        let root = self.frames.is_empty();
        let mut list = Vec::new();
        if !root &&
            let Some(value) = inputs.value.transfer() &&
            !value.is_zero() &&
            inputs.caller != inputs.target_address
        {
            list.push(Debit { source: inputs.caller, before: Self::balance(context, inputs.caller) });
        }
        self.frames.push(list);
        None
    }
    fn call_end(&mut self, _context: &mut CTX, _inputs: &CallInputs, outcome: &mut CallOutcome) {
        if std::env::var("VERIF_DEBUG").is_ok() {
            eprintln!("  call_end depth={} result={:?}", self.frames.len(), outcome.result.result);
        }
        self.close(outcome.result.result.is_ok());
    }
    fn create(&mut self, context: &mut CTX, inputs: &mut CreateInputs) -> Option<CreateOutcome> {
        let root = self.frames.is_empty();
        let mut list = Vec::new();
        if !root && !inputs.value().is_zero() {
            list.push(Debit { source: inputs.caller(), before: Self::balance(context, inputs.caller()) });
        }
        self.frames.push(list);
        None
    }
    fn create_end(&mut self, _context: &mut CTX, _inputs: &CreateInputs, outcome: &mut CreateOutcome) {
        self.close(outcome.result.result.is_ok());
    }
    fn selfdestruct(&mut self, contract: Address, _target: Address, value: U256) {
        if std::env::var("VERIF_DEBUG").is_ok() {
            eprintln!("  selfdestruct depth={} contract={contract} target={_target} value={value}", self.frames.len());
        }
        if !value.is_zero() &&
            let Some(top) = self.frames.last_mut()
        {
            top.push(Debit { source: contract, before: value });
        }
    }
}

pub struct C13;

fn reserve_family() -> GenParams {
    GenParams {
        family: "reserve",
        specs: PRAGUE_SPECS,
        txs: (3, 12),
        n_eoa: 4,
        n_con: 4,
        mix: Mix { call: 14, create: 3, selfdestruct: 2, sload: 4, sstore: 4, terminate: 3, slots: 3, vmax: 6_000_000, len: (3, 9), ..Mix::default() },
        kind_w: [4, 2, 3, 12],
        auth_pct: 20,
        pre_delegated: 3,
        hot_sender_pct: 45,
        reserve_shape: true,
        ctor_calls_origin: true,
        refunder_contract: true,
        invalid_pct: 4,
        basefees: &[7],
        ..GenParams::default()
    }
}

impl Campaign for C13 {
    fn prop(&self) -> &'static str {
        "C13"
    }
    fn iterate(&self, iter_seed: u64, rep: &mut ShardReport, _deadline: Instant) {
        let mut r = Rng::new(iter_seed);
        let case = generate(&reserve_family(), r.next());
        let n = case.txs.len();
        let pw = ProfileWeights {
            focus_classes: &[Class::ExecStart, Class::Mv, Class::ExecPublish, Class::Commit],
            directors: obs::D_COMMIT_HEAD | obs::D_EXEC_PUBLISH | obs::D_FINISH_AT_HEAD,
            ..ProfileWeights::default()
        };
        let mut rc = pick_runcfg(&mut r, n, &pw, 25);
        rc.safety = if r.chance(1, 2) { DelegatedSafetyConfig::reserve_only() } else { DelegatedSafetyConfig::enabled() };
        let plan = FaultPlan::default();
        let out = run_grevm(&case, &rc, &plan, None);
        let mut violations = Vec::new();
        if let Some(sv) = stall_violation(&out) {
            violations.push(sv);
        }
        if let Some(p) = &out.panic {
            violations.push(vio("PANIC", "C05", format!("execute() panicked: {p}")));
        }
        let (tv, tstats) = check_trace(&TraceInput { trace: &out.trace, n_txs: n, outcomes: &out.outcomes, reference: None, errored: out.result.is_err() });
        let mut first_violation_checked = false;
        if out.stall.is_none() && out.panic.is_none() {
            violations.extend(tv);
            if let Err((k, sig)) = &out.result {
                violations.push(vio("RSV", "C13", format!("policy-on execution failed at tx {k}: {sig}")));
            }
            // (ii) end-to-end invariant: a sender that could pay for all its block transactions at
            // block start is never skipped for lack of funds
            let mut sum_by_sender: BTreeMap<Address, U256> = BTreeMap::new();
            for tx in case.txs.iter() {
                let e = sum_by_sender.entry(tx.caller).or_insert(U256::ZERO);
                *e = e.saturating_add(tx.max_balance_spending().unwrap_or(U256::MAX));
            }
            for (i, o) in out.outcomes.iter().enumerate() {
                if let TxExecutionOutcome::Skipped(grevm::InvalidTransaction::LackOfFundForMaxFee { .. }) = o {
                    let sender = case.txs[i].caller;
                    let start = case.db.info(sender).map(|x| x.balance).unwrap_or_default();
                    rep.bump("lack_of_funds_skips_seen", 1);
                    if start >= sum_by_sender[&sender] {
                        violations.push(vio(
                            "RSV",
                            "C13",
                            format!(
                                "tx {i} from {sender} was skipped for lack of funds although its block-start balance {start} covers the summed maximum cost {} of all its block transactions",
                                sum_by_sender[&sender]
                            ),
                        ));
                    }
                }
            }
            // (iii) independent re-statement of the rule on stock revm, valid up to and including
            // the first transaction it turns into a revert
            let (verdicts, stock) = stock_with_rule(&case, rc.safety.forbid_delegated_create);
            let prague = case.spec.is_enabled_in(SpecId::PRAGUE);
            for (i, verdict) in verdicts.iter().enumerate() {
                let Some(got) = out.outcomes.get(i) else { break };
                let want = &stock.outcomes[i];
                match verdict {
                    RuleVerdict::Holds => {
                        if got != want {
                            violations.push(vio(
                                "RSV",
                                "C13",
                                format!("tx {i}: the reserve rule holds (no delegated debit below the reserve), so execution must equal stock revm: expected {want:?}, got {got:?}"),
                            ));
                            break;
                        }
                    }
                    RuleVerdict::Violated { source, before, future, final_balance, twin, pre_nonce } if prague => {
                        first_violation_checked = true;
                        rep.bump("first_reserve_violations_checked", 1);
                        // what exactly was committed for this transaction
                        let committed = out.trace.iter().find_map(|r| match &r.ev {
                            obs::Ev::State { txid, result, delta, .. } if *txid == i => Some((result.clone(), delta.clone())),
                            _ => None,
                        });
                        // From Amsterdam on (EIP-8037) stock revm does not charge a reverted frame the
                        // state gas of the state growth it discards, while grevm's synthetic revert
                        // keeps the full gas of the attempted execution. The property pins the nonce
                        // bump, the authorisation effects and refund and the discarding of execution
                        // state, not this amount, so there the twin is compared on those only.
                        let state_gas_fork = case.spec.is_enabled_in(SpecId::AMSTERDAM);
                        if let (Some((want_result, want_delta)), Some((got_result, got_delta))) = (twin, &committed) &&
                            state_gas_fork
                        {
                            rep.bump("reserve_violations_checked_against_twin_without_gas_amounts", 1);
                            let strip = |d: &crate::compare::CanonDelta| -> Vec<(Address, crate::compare::DeltaKind, u64, revm_primitives::B256, Vec<(U256, (U256, U256))>)> {
                                d.iter().map(|(a, x)| (*a, x.kind.clone(), x.nonce, x.code_hash, x.slots.iter().map(|(k, v)| (*k, *v)).collect())).collect()
                            };
                            let kind_ok = matches!((want_result, got_result), (ExecutionResult::Revert { output: a, .. }, ExecutionResult::Revert { output: b, .. }) if a == b);
                            if !kind_ok || strip(want_delta) != strip(got_delta) {
                                violations.push(vio(
                                    "RSV",
                                    "C13",
                                    format!("tx {i}: reserve violation by {source}: apart from gas amounts and balances, the state kept by the charged revert (touched accounts, nonces, code, storage) differs from stock revm reverting the same execution at its very end: expected {:?}, committed {:?}", strip(want_delta), strip(got_delta)),
                                ));
                            }
                        } else if let (Some((want_result, want_delta)), Some((got_result, got_delta))) = (twin, &committed) {
                            rep.bump("reserve_violations_checked_against_forced_revert_twin", 1);
                            if want_result != got_result {
                                violations.push(vio(
                                    "RSV",
                                    "C13",
                                    format!("tx {i}: reserve violation by {source}: the charged top-level revert differs from stock revm reverting the same execution at its very end: expected {want_result:?}, committed {got_result:?}"),
                                ));
                            } else if let Some(d) = crate::compare::diff_delta(want_delta, got_delta) {
                                violations.push(vio(
                                    "RSV",
                                    "C13",
                                    format!("tx {i}: reserve violation by {source}: state kept by the charged revert (nonce bump, fee, authorisation effects and refund, reward) differs from stock revm reverting the same execution at its very end: {d}"),
                                ));
                            }
                        } else if let Some((_, got_delta)) = &committed {
                            // top-level CREATE (code-deposit gas makes the twin inexact): at least the
                            // sender's nonce bump must survive
                            let sender = case.txs[i].caller;
                            rep.bump("reserve_violations_checked_nonce_only", 1);
                            if got_delta.get(&sender).map(|d| d.nonce) != Some(pre_nonce + 1) {
                                violations.push(vio(
                                    "RSV",
                                    "C13",
                                    format!("tx {i}: reserve violation: the sender's nonce bump was not kept (nonce before {pre_nonce}, committed {:?})", got_delta.get(&sender).map(|d| d.nonce)),
                                ));
                            }
                        }
                        match got {
                            TxExecutionOutcome::Executed(ExecutionResult::Revert { output, .. }) if output.is_empty() => {}
                            other => violations.push(vio(
                                "RSV",
                                "C13",
                                format!(
                                    "tx {i}: delegated account {source} ends with {final_balance} < min(balance before first debit {before}, later own maximum costs {future}); expected a charged top-level revert with empty output, got {other:?}"
                                ),
                            )),
                        }
                        break;
                    }
                    _ => break,
                }
            }
            rep.bump("rule_verdicts_holds", verdicts.iter().filter(|v| matches!(v, RuleVerdict::Holds)).count() as u64);
        }
        let nontrivial = tstats.nontrivial() || first_violation_checked;
        let ctx = IterCtx { prop: "C13", iter_seed, family_idx: 0 };
        record(rep, &ctx, &case, &rc, &plan, &out, &tstats, violations, nontrivial);
    }
}

#[derive(Clone, Debug)]
enum RuleVerdict {
    Holds,
    Violated {
        source: Address,
        before: U256,
        future: U256,
        final_balance: U256,
        /// result and state delta of the same transaction on stock revm with its root frame
        /// turned into a REVERT at its very end (None for top-level creates / frames without code)
        twin: Option<(ExecutionResult, crate::compare::CanonDelta)>,
        /// the sender's nonce before the transaction
        pre_nonce: u64,
    },
    /// the stock run stops being a valid reference (after the first violation, or skipped tx)
    Unknown,
}

/// Run the block on stock revm with the debit inspector; judge each transaction by the rule
/// until the first violation (after which policy-on and stock states diverge).
fn stock_with_rule(case: &Case, enforce_create_guard: bool) -> (Vec<RuleVerdict>, RefRun) {
    use revm::{Context, DatabaseCommit, InspectEvm, MainBuilder, MainContext};
    use revm_database::StateBuilder;
    let db = Arc::new(FaultDb::new(case.db.clone(), FaultPlan::default()));
    let state: revm_database::State<_> = StateBuilder::new().with_bundle_update().with_database_ref(db).build();
    let mut evm = Context::mainnet()
        .with_db(state)
        .with_cfg(cfg_env(case))
        .with_block(case.block.clone())
        .build_mainnet_with_inspector((
            CreateWatch { enforce: enforce_create_guard, prague: case.spec.is_enabled_in(SpecId::PRAGUE), ..Default::default() },
            DebitWatch::default(),
        ));
    let mut verdicts = Vec::new();
    let mut outcomes = Vec::new();
    let mut deltas = Vec::new();
    let mut diverged = false;
    for (i, tx) in case.txs.iter().enumerate() {
        evm.inspector.1.begin_tx();
        let sender_nonce_before = {
            use revm::Database;
            evm.ctx.journaled_state.database.basic(tx.caller).ok().flatten().map(|i| i.nonce).unwrap_or(0)
        };
        match evm.inspect_tx(tx.clone()) {
            Ok(ras) => {
                let mut verdict = RuleVerdict::Holds;
                if !diverged {
                    let mut seen: Vec<Address> = Vec::new();
                    for (source, before) in evm.inspector.1.surviving.clone() {
                        if seen.contains(&source) {
                            continue;
                        }
                        seen.push(source);
                        let Some(acc) = ras.state.get(&source) else { continue };
                        let delegated = acc.info.code.as_ref().is_some_and(|c| c.is_eip7702());
                        if !delegated {
                            continue;
                        }
                        let mut future = U256::ZERO;
                        for later in case.txs[i + 1..].iter().filter(|t| t.caller == source) {
                            future = future.saturating_add(later.max_balance_spending().unwrap_or(U256::MAX));
                        }
                        if future.is_zero() {
                            continue;
                        }
                        let final_balance = acc.info.balance;
                        if final_balance < before.min(future) {
                            verdict = RuleVerdict::Violated { source, before, future, final_balance, twin: None, pre_nonce: 0 };
                            break;
                        }
                    }
                } else {
                    verdict = RuleVerdict::Unknown;
                }
                if let RuleVerdict::Violated { twin, pre_nonce, .. } = &mut verdict {
                    diverged = true;
                    // sender nonce before this transaction (read from the state before it ran; the
                    // finalized state is no guide: delegated code re-entered during the
                    // transaction may have bumped the sender's nonce again through CREATE)
                    *pre_nonce = sender_nonce_before;
                    if !tx.kind.is_create() {
                        // the twin: same pre-state (nothing of `ras` has been committed), same
                        // transaction, root frame reverted at its very end
                        evm.inspector.1.begin_tx();
                        evm.inspector.1.force_root_revert = true;
                        if let Ok(ras2) = evm.inspect_tx(tx.clone()) &&
                            evm.inspector.1.forced
                        {
                            *twin = Some((ras2.result.clone(), canon_delta(&ras2.state)));
                        }
                        evm.inspector.1.force_root_revert = false;
                    }
                }
                verdicts.push(verdict);
                deltas.push(Some(canon_delta(&ras.state)));
                evm.ctx.journaled_state.database.commit(ras.state);
                outcomes.push(TxExecutionOutcome::Executed(ras.result));
            }
            Err(revm_context::result::EVMError::Transaction(t)) => {
                verdicts.push(if diverged { RuleVerdict::Unknown } else { RuleVerdict::Holds });
                outcomes.push(TxExecutionOutcome::Skipped(t));
                deltas.push(None);
            }
            Err(_) => break,
        }
    }
    let r = RefRun {
        outcomes,
        deltas,
        error: None,
        bundle: Default::default(),
        readback: Default::default(),
        loaded: Vec::new(),
    };
    (verdicts, r)
}


/// Debug helper: print the rule verdicts and surviving debits of the stock run for one C13 case.
pub fn debug_c13(iter_seed: u64) {
    let mut r = Rng::new(iter_seed);
    let case = generate(&reserve_family(), r.next());
    println!("{}", serde_json::to_string_pretty(&case.summary()).unwrap());
    for (a, p) in &case.programs {
        println!("program {a}: {:?}", p.stmts);
    }
    for (a, s) in &case.db.accounts {
        println!("account {a}: balance {} nonce {} code {:?}", s.balance, s.nonce, s.code.as_ref().map(|c| if c.len() == 23 { format!("delegation->{}", Address::from_slice(&c[3..])) } else { format!("{}B", c.len()) }));
    }
    for guard in [false, true] {
        let (verdicts, stock) = stock_with_rule(&case, guard);
        println!("--- create guard enforced in stock run: {guard}");
        for (i, v) in verdicts.iter().enumerate() {
            println!("tx {i}: {v:?} -> {:?}", stock.outcomes.get(i).map(|o| format!("{o:?}").chars().take(120).collect::<String>()));
        }
    }
}
