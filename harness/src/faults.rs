//! Fault-injection campaigns: C04 (error fidelity, exact prefix; per-block enumeration of
//! key x mode) and C05 (termination under errors, aborts and injected panics).

use crate::{
    campaign::{
        IterCtx, ProfileWeights, ShardReport, check_equal, pick_runcfg, record, reference_for,
        stall_violation,
    },
    compare::{diff_bundle, diff_outcomes, diff_readback},
    db::{FaultMode, FaultPlan, Key, PANIC_PREFIX},
    monitors::{TraceInput, Violation, check_trace},
    obs::{self, Class},
    reference::RefRun,
    rng::Rng,
    run::{RunCfg, RunOut, run_grevm},
    world::{Case, GenParams},
};
use std::{
    collections::{BTreeMap, BTreeSet},
    time::{Duration, Instant},
};

fn vio(monitor: &'static str, owner: &'static str, message: String) -> Violation {
    Violation { monitor, owner, message }
}

/// Truncated copy of `case` (first `k` transactions) for prefix references.
fn prefix_case(case: &Case, k: usize) -> Case {
    let mut c = case.clone();
    c.txs = std::sync::Arc::new(case.txs[..k].to_vec());
    c
}

/// Equality of a failed run with an exact committed prefix of the fault-free in-order run.
fn check_prefix(case: &Case, clean: &RefRun, out: &RunOut, k: usize, with_reverts: bool) -> Vec<Violation> {
    let mut v = Vec::new();
    if k > clean.outcomes.len() {
        v.push(vio("FAULT", "C04", format!("error index {k} beyond the block")));
        return v;
    }
    if let Some(d) = diff_outcomes(&clean.outcomes[..k], &out.outcomes) {
        v.push(vio("FAULT", "C04", format!("after Err(tx {k}) the returned outcomes are not the first {k} in-order outcomes: {d}")));
    }
    let pre = reference_for(&prefix_case(case, k), &FaultPlan::default(), true, with_reverts);
    if let Some(d) = diff_bundle(&pre.bundle, &out.bundle) {
        v.push(vio("FAULT", "C04", format!("after Err(tx {k}) the returned state is not the effect of exactly {k} transactions: {d}")));
    }
    if let Some(d) = diff_readback(&pre.readback, &out.readback) {
        v.push(vio("FAULT", "C04", format!("after Err(tx {k}) read-back differs from the state after exactly {k} transactions: {d}")));
    }
    v
}

/// Known finding F4 (eager code fetch): grevm attaches code to every account it reads, so a
/// database fault on the *code* of an account whose code in-order execution does not load at that
/// transaction (e.g. only its balance is read) surfaces as a fatal error at the commit head.
/// Matches only when everything else about the error is exact.
fn is_eager_code_fetch(case: &Case, key: &Key, clean: &RefRun, faulty_in_order: &RefRun, out: &RunOut, with_reverts: bool) -> bool {
    let Key::Code(h) = key else { return false };
    let Err((k, sig)) = &out.result else { return false };
    let k = *k;
    if *sig != format!("Database:injected fault at {}", key.short()) || k >= clean.loaded.len() {
        return false;
    }
    // in order, transaction k reads an account that carries this code hash but never its code
    let holders: Vec<_> = case
        .db
        .accounts
        .keys()
        .filter(|a| case.db.info(**a).is_some_and(|i| i.code_hash == *h))
        .collect();
    let reads_holder = holders.iter().any(|a| clean.loaded[k].contains(&Key::Basic(**a)));
    if !reads_holder || clean.loaded[k].contains(key) {
        return false;
    }
    // the in-order run on the same faulty database gets past k - or, when the plan has several
    // faulty keys, fails at k as well but on *another* key that transaction k reads after the
    // point where grevm fetched the code it did not need
    if let Some((k2, sig2)) = &faulty_in_order.error &&
        (*k2 < k || (*k2 == k && sig2 == sig))
    {
        return false;
    }
    check_prefix(case, clean, out, k, with_reverts).is_empty()
}

/// Known finding F6: the sequential path pre-reads the sender of a transaction whose nonce is
/// u64::MAX (`reject_nonce_overflow`), while revm rejects such a transaction in environment
/// validation without touching the database.
fn is_nonce_max_precheck(case: &Case, key: &Key, clean: &RefRun, faulty_in_order: &RefRun, out: &RunOut, with_reverts: bool) -> bool {
    let Err((k, sig)) = &out.result else { return false };
    let k = *k;
    let Some(tx) = case.txs.get(k) else { return false };
    if tx.nonce != u64::MAX || *key != Key::Basic(tx.caller) || case.disable_nonce_check {
        return false;
    }
    if *sig != format!("Database:injected fault at {}", key.short()) {
        return false;
    }
    if let Some((k2, _)) = &faulty_in_order.error &&
        *k2 <= k
    {
        return false;
    }
    check_prefix(case, clean, out, k, with_reverts).is_empty()
}

/// Judge one faulty run. `persistent`: the plan's faults fire on every access.
#[allow(clippy::too_many_arguments)]
fn judge(
    case: &Case,
    rc: &RunCfg,
    key: &Key,
    persistent: bool,
    clean: &RefRun,
    with_preload: &RefRun,
    without_preload: &RefRun,
    out: &RunOut,
) -> Vec<Violation> {
    let mut v = Vec::new();
    if is_eager_code_fetch(case, key, clean, with_preload, out, rc.with_reverts) {
        let Err((k, _)) = &out.result else { unreachable!() };
        v.push(vio(
            "FAULT-EAGER-CODE",
            "C04",
            format!(
                "database fault on code {} reported at tx {k}: in order, tx {k} reads an account carrying that code hash but never loads its code (grevm fetches code eagerly with every account read); outcomes and state are the exact {k}-transaction prefix",
                key.short()
            ),
        ));
        return v;
    }
    if is_nonce_max_precheck(case, key, clean, with_preload, out, rc.with_reverts) {
        let Err((k, _)) = &out.result else { unreachable!() };
        v.push(vio(
            "FAULT-NONCE-MAX-PRECHECK",
            "C04",
            format!(
                "database fault on sender {} reported at tx {k} whose nonce is u64::MAX: revm rejects that transaction without reading the sender, grevm's sequential path reads it first; outcomes and state are the exact {k}-transaction prefix",
                key.short()
            ),
        ));
        return v;
    }
    if persistent {
        // Deterministic: the in-order run on the same faulty database is the specification.
        let primary = check_equal(with_preload, out);
        if primary.is_empty() {
            return v;
        }
        if rc.sequential_for(case.txs.len()) {
            // The configured sequential path has no pre-load step; it is itself an in-order
            // execution, so agreement with the in-order run without pre-load is accepted too.
            let alt = check_equal(without_preload, out);
            if alt.is_empty() {
                return v;
            }
        }
        for mut p in primary {
            if p.owner == "C01" {
                p.owner = "C04";
            }
            v.push(p);
        }
        return v;
    }
    // Transient fault: absorbed (full fault-free result) or an exact prefix at a transaction that
    // in order really accesses the key.
    match &out.result {
        Ok(()) => {
            for mut p in check_equal(clean, out) {
                if p.owner == "C01" {
                    p.owner = "C04";
                }
                v.push(p);
            }
        }
        Err((k, sig)) => {
            let expected_sig = format!("Database:injected fault at {}", key.short());
            if *sig != expected_sig {
                v.push(vio("FAULT", "C04", format!("transient fault at {} surfaced as `{sig}` at tx {k}", key.short())));
                return v;
            }
            let k = *k;
            let accesses = if k < clean.loaded.len() {
                clean.loaded[k].contains(key)
            } else {
                false
            };
            // the beneficiary pre-load happens before any transaction: failing it is Err{txid:0}
            let preload_key = *key == Key::Basic(case.block.beneficiary) && k == 0;
            if !accesses && !preload_key {
                v.push(vio(
                    "FAULT",
                    "C04",
                    format!("transient fault at {} reported at tx {k}, which in order never accesses that key (a failure seen only by a stale speculative attempt)", key.short()),
                ));
            }
            v.extend(check_prefix(case, clean, out, k, rc.with_reverts));
        }
    }
    v
}

pub fn fault_families() -> Vec<(u32, GenParams)> {
    use crate::progs::Mix;
    vec![
        (
            6,
            GenParams {
                family: "fault-hot",
                txs: (2, 8),
                n_eoa: 4,
                n_con: 2,
                mix: Mix { sload: 12, sstore: 12, balance: 8, extcode: 3, call: 5, slots: 3, len: (3, 9), ..Mix::default() },
                kind_w: [12, 2, 0, 2],
                nonce_check_off_pct: 20,
                // transactions that in-order validation rejects on their nonce: workers run their
                // bodies anyway (nonce check off), touching keys no in-order execution reads
                invalid_pct: 12,
                invalid_nonce_bias: true,
                ..GenParams::default()
            },
        ),
        (
            5,
            GenParams {
                family: "fault-stale-probe",
                txs: (3, 8),
                n_eoa: 4,
                n_con: 1,
                mix: Mix { sload: 10, sstore: 8, balance: 4, call: 2, slots: 3, len: (1, 5), terminate: 0, ..Mix::default() },
                kind_w: [14, 0, 0, 0],
                stale_probe: true,
                nonce_check_off_pct: 60,
                ..GenParams::default()
            },
        ),
        (
            3,
            GenParams {
                family: "fault-mixed",
                specs: crate::world::ALL_SPECS,
                txs: (2, 8),
                n_eoa: 4,
                n_con: 3,
                mix: Mix { selfdestruct: 1, create: 2, balance: 6, ..Mix::default() },
                invalid_pct: 8,
                auth_pct: 10,
                ..GenParams::default()
            },
        ),
        // in-block destroy / re-create over backing storage: slots masked by a reset marker must not
        // be fetched (a fault on such a key is invisible to in-order execution)
        (2, GenParams { family: "fault-reborn", txs: (3, 8), ..crate::props::reborn_family() }),
    ]
}

fn fault_profiles() -> ProfileWeights {
    ProfileWeights {
        quiet: 2,
        light: 2,
        chaos: 2,
        focus: 4,
        director: 8,
        focus_classes: &[Class::ExecStart, Class::Cache, Class::Abort, Class::Commit, Class::Mv],
        directors: obs::D_COMMIT_HEAD | obs::D_CACHE | obs::D_EXEC_PUBLISH | obs::D_COORD | obs::D_FINISH_AT_HEAD,
    }
}

fn trace_violations(case: &Case, reference: Option<&RefRun>, out: &RunOut) -> (Vec<Violation>, crate::monitors::TraceStats) {
    check_trace(&TraceInput {
        trace: &out.trace,
        n_txs: case.txs.len(),
        outcomes: &out.outcomes,
        reference,
        errored: out.result.is_err(),
    })
}

/// C04: per block, enumerate every key any attempt touched x {persistent, fail-1st, fail-2nd}.
pub struct C04;

impl crate::campaign::Campaign for C04 {
    fn prop(&self) -> &'static str {
        "C04"
    }
    fn iterate(&self, iter_seed: u64, rep: &mut ShardReport, deadline: Instant) {
        c04_iterate(iter_seed, rep, deadline)
    }
}

fn c04_iterate(iter_seed: u64, rep: &mut ShardReport, deadline: Instant) {
    let fams = fault_families();
    let weights: Vec<u32> = fams.iter().map(|f| f.0).collect();
    let pw = fault_profiles();
    {
        let mut ir = Rng::new(iter_seed);
        let fi = ir.weighted(&weights);
        let case = crate::world::generate(&fams[fi].1, ir.next());
        let none = FaultPlan::default();
        // keys touched in order, and keys touched by any speculative attempt of a few probe runs
        let clean = reference_for(&case, &none, true, true);
        if clean.error.is_some() {
            return;
        }
        let mut touched: BTreeMap<Key, bool> = BTreeMap::new(); // key -> touched in order?
        for step in &clean.loaded {
            for k in step {
                touched.insert(k.clone(), true);
            }
        }
        for _ in 0..3 {
            let rc = pick_runcfg(&mut ir, case.txs.len(), &pw, 0);
            let plan = FaultPlan { default_latency_us: *ir.pick(&[0, 0, 20, 100]), ..FaultPlan::default() };
            let out = run_grevm(&case, &rc, &plan, None);
            for k in out.touched.keys() {
                touched.entry(k.clone()).or_insert(false);
            }
        }
        let stale_only: Vec<Key> = touched.iter().filter(|(_, o)| !**o).map(|(k, _)| k.clone()).collect();
        let mut keys: Vec<Key> = touched.keys().cloned().collect();
        // priority: keys only stale attempts touch, then the rest; capped per block
        ir.shuffle(&mut keys);
        keys.sort_by_key(|k| touched[k]);
        let cap = 14usize;
        let enumerated_all = keys.len() <= cap;
        keys.truncate(cap);
        rep.bump("blocks", 1);
        rep.bump("blocks_fully_enumerated", enumerated_all as u64);
        rep.bump("keys_enumerated", keys.len() as u64);
        rep.bump("keys_touched_only_by_speculative_attempts", stale_only.len() as u64);
        for key in &keys {
            for mode in [FaultMode::Persistent, FaultMode::FailNth(1), FaultMode::FailNth(2)] {
                if Instant::now() > deadline + Duration::from_secs(20) {
                    break;
                }
                let persistent = mode == FaultMode::Persistent;
                let mut plan = FaultPlan::default();
                plan.faults.insert(key.clone(), mode.clone());
                // a third of the persistent plans carry a second faulty key: a stale attempt may
                // then fail on a *different* key than in-order execution does, and the error
                // reported must still be the in-order one (payload included)
                let mut second: Option<Key> = None;
                if persistent && keys.len() > 1 && ir.chance(1, 2) {
                    // pair a key only stale attempts read with one the in-order run reads (and the
                    // other way round) whenever the block offers both kinds
                    let opposite: Vec<&Key> = keys.iter().filter(|k| touched[*k] != touched[key]).collect();
                    let other = if !opposite.is_empty() && ir.chance(3, 4) { (*ir.pick(&opposite)).clone() } else { ir.pick(&keys).clone() };
                    if other != *key {
                        plan.faults.insert(other.clone(), FaultMode::Persistent);
                        if !touched[&other] {
                            plan.latency_us.insert(other.clone(), *ir.pick(&[500u64, 2000]));
                        }
                        second = Some(other);
                        rep.bump("runs_with_two_faulty_keys", 1);
                    }
                } else if persistent && !touched[key] && ir.chance(1, 2) {
                    // "every stale attempt fails": all keys only speculative attempts read are
                    // faulty, plus one key the in-order run reads. In order only that last one can
                    // be hit, and it alone may be reported - with its own payload - whatever the
                    // stale attempts of the same transaction ran into before.
                    for k in stale_only.iter() {
                        plan.faults.insert(k.clone(), FaultMode::Persistent);
                    }
                    let in_order: Vec<&Key> = touched.iter().filter(|(_, o)| **o).map(|(k, _)| k).collect();
                    if !in_order.is_empty() {
                        let a = (*ir.pick(&in_order)).clone();
                        plan.faults.insert(a.clone(), FaultMode::Persistent);
                        second = Some(a);
                    }
                    rep.bump("runs_with_all_stale_only_keys_faulty", 1);
                }
                // slow some keys so attempts start speculatively and finish late
                if !touched[key] {
                    // a key only stale attempts read: keep the reader busy long enough for its
                    // predecessors to commit, so the attempt ends as the commit head
                    plan.latency_us.insert(key.clone(), *ir.pick(&[1000u64, 3000, 6000]));
                } else if ir.chance(1, 2) {
                    plan.latency_us.insert(key.clone(), *ir.pick(&[200u64, 1000, 3000]));
                }
                if ir.chance(1, 3) {
                    let other = ir.pick(&keys).clone();
                    plan.latency_us.entry(other).or_insert(*ir.pick(&[100u64, 500]));
                }
                let rc = pick_runcfg(&mut ir, case.txs.len(), &pw, 8);
                let with_pre = reference_for(&case, &plan, true, rc.with_reverts);
                let without_pre = reference_for(&case, &plan, false, rc.with_reverts);
                let clean_r = if rc.with_reverts { clean.clone() } else { reference_for(&case, &none, true, false) };
                let out = run_grevm(&case, &rc, &plan, None);
                let mut violations = Vec::new();
                if let Some(sv) = stall_violation(&out) {
                    violations.push(sv);
                }
                if let Some(p) = &out.panic {
                    violations.push(vio("PANIC", "C05", format!("execute() panicked: {p}")));
                }
                // step-wise reference for the trace monitors: the in-order run on the same faulty
                // database when the fault is deterministic, the fault-free run otherwise
                let step_ref = if persistent { &with_pre } else { &clean_r };
                let (mut tv, stats) = trace_violations(&case, None, &out);
                let _ = step_ref;
                if out.stall.is_none() && out.panic.is_none() {
                    // with two faulty keys the known-finding classifiers look at the key the error names
                    let judged_key = match &out.result {
                        Err((_, sig)) => plan.faults.keys().find(|k| sig.ends_with(&k.short())).unwrap_or(key),
                        _ => key,
                    };
                    let _ = &second;
                    violations.extend(judge(&case, &rc, judged_key, persistent, &clean_r, &with_pre, &without_pre, &out));
                    violations.append(&mut tv);
                }
                let fired = out.faults_fired > 0;
                rep.bump(if fired { "runs_fault_hit" } else { "runs_fault_not_reached" }, 1);
                rep.bump(
                    match (&out.result, persistent) {
                        (Ok(()), true) => "persistent_ok",
                        (Err(_), true) => "persistent_err",
                        (Ok(()), false) => "transient_absorbed",
                        (Err(_), false) => "transient_reported",
                    },
                    1,
                );
                if !touched[key] {
                    rep.bump("runs_on_stale_only_keys", 1);
                }
                let ctx = IterCtx { prop: "C04", iter_seed, family_idx: fi };
                record(rep, &ctx, &case, &rc, &plan, &out, &stats, violations, fired);
            }
        }
    }
}

/// C05: termination under every kind of disturbance; injected panics must reach the caller.
pub struct C05;

impl crate::campaign::Campaign for C05 {
    fn prop(&self) -> &'static str {
        "C05"
    }
    fn iterate(&self, iter_seed: u64, rep: &mut ShardReport, _deadline: Instant) {
        c05_iterate(iter_seed, rep)
    }
}

fn c05_iterate(iter_seed: u64, rep: &mut ShardReport) {
    use crate::progs::Mix;
    let fams: Vec<(u32, GenParams)> = vec![
        (4, crate::props::withdraw_family()),
        (
            5,
            GenParams {
                family: "chains-and-fan-in",
                txs: (4, 24),
                n_eoa: 4,
                n_con: 1,
                mix: Mix { sload: 14, sstore: 14, call: 2, slots: 2, len: (4, 10), ..Mix::default() },
                kind_w: [14, 2, 0, 0],
                hot_sender_pct: 60,
                ..GenParams::default()
            },
        ),
        (
            4,
            GenParams {
                family: "errors-parked",
                specs: crate::world::ALL_SPECS,
                txs: (4, 20),
                n_eoa: 4,
                n_con: 2,
                mix: Mix { sload: 10, sstore: 10, call: 5, slots: 3, ..Mix::default() },
                invalid_pct: 25,
                poor_senders: 2,
                hot_sender_pct: 50,
                nonce_check_off_pct: 30,
                ..GenParams::default()
            },
        ),
        (
            3,
            GenParams {
                family: "mixed",
                specs: crate::world::ALL_SPECS,
                txs: (3, 30),
                n_eoa: 6,
                n_con: 4,
                mix: Mix { selfdestruct: 1, create: 2, ..Mix::default() },
                invalid_pct: 6,
                auth_pct: 12,
                pre_delegated: 1,
                ..GenParams::default()
            },
        ),
    ];
    let weights: Vec<u32> = fams.iter().map(|f| f.0).collect();
    let pw = ProfileWeights {
        quiet: 2,
        light: 2,
        chaos: 3,
        focus: 6,
        director: 8,
        focus_classes: &[Class::Wait, Class::Dep, Class::Abort, Class::Finality, Class::Commit, Class::Cursor, Class::ExecPublish, Class::Mv],
        directors: obs::D_COORD | obs::D_WAIT | obs::D_COMMIT_HEAD | obs::D_CLAIM_LOCK | obs::D_FINISH_AT_HEAD | obs::D_AFTER_NOTIFY | obs::D_EXEC_PUBLISH | obs::D_ESTIMATE_REWIND | obs::D_GATE,
    };
    {
        let mut ir = Rng::new(iter_seed);
        let fi = ir.weighted(&weights);
        let case = crate::world::generate(&fams[fi].1, ir.next());
        let mut rc = pick_runcfg(&mut ir, case.txs.len(), &pw, 5);
        if ir.chance(1, 4) {
            rc.workers = 1;
        }
        // disturbance: none / db errors / db panics / latency
        let clean = reference_for(&case, &FaultPlan::default(), true, rc.with_reverts);
        let keys: Vec<Key> = {
            let mut s: BTreeSet<Key> = BTreeSet::new();
            for step in &clean.loaded {
                s.extend(step.iter().cloned());
            }
            s.into_iter().collect()
        };
        let mut plan = FaultPlan::default();
        let mode = ir.below(10);
        let mut panic_key = None;
        if !keys.is_empty() {
            match mode {
                0..=2 => {
                    let k = ir.pick(&keys).clone();
                    plan.faults.insert(k, if ir.chance(1, 2) { FaultMode::Persistent } else { FaultMode::FailNth(ir.range(1, 2) as u32) });
                }
                3..=5 => {
                    let k = ir.pick(&keys).clone();
                    plan.faults.insert(k.clone(), if ir.chance(1, 2) { FaultMode::Panic } else { FaultMode::PanicNth(ir.range(1, 2) as u32) });
                    panic_key = Some(k);
                }
                6 | 7 => {
                    plan.default_latency_us = *ir.pick(&[20u64, 100, 400]);
                }
                _ => {}
            }
            if ir.chance(1, 3) {
                plan.latency_us.insert(ir.pick(&keys).clone(), *ir.pick(&[500u64, 2000]));
            }
        }
        let out = run_grevm(&case, &rc, &plan, None);
        let mut violations = Vec::new();
        if let Some(sv) = stall_violation(&out) {
            violations.push(sv);
        }
        let (tv, stats) = trace_violations(&case, None, &out);
        let fired = out.faults_fired > 0;
        match (&panic_key, &out.panic) {
            (Some(k), Some(msg)) => {
                rep.bump("panics_propagated", 1);
                if !msg.contains(PANIC_PREFIX) || !msg.contains(&k.short()) {
                    violations.push(vio("PANIC", "C05", format!("injected panic at {} reached the caller with a different payload: {msg}", k.short())));
                }
            }
            (Some(k), None) if fired => {
                violations.push(vio(
                    "PANIC",
                    "C05",
                    format!("a panic was raised by the database at {} but execute() returned {:?} instead of unwinding", k.short(), out.result),
                ));
            }
            (None, Some(msg)) => violations.push(vio("PANIC", "C05", format!("execute() panicked without an injected panic: {msg}"))),
            _ => {}
        }
        if out.stall.is_none() && out.panic.is_none() {
            violations.extend(tv);
            if plan.faults.is_empty() {
                violations.extend(check_equal(&clean, &out));
            }
        }
        rep.bump(
            match &out.result {
                Ok(()) => "returned_ok",
                Err((k, _)) if *k == usize::MAX => "returned_by_unwinding",
                Err(_) => "returned_err",
            },
            1,
        );
        // C05 non-triviality: a coordinator parked and a dependency was released, or an abort /
        // injected fault / panic actually happened
        let nontrivial = (stats.parks > 0 && (stats.dep_cleared_by_remove + stats.dep_commit_release) > 0) ||
            stats.aborts > 0 ||
            fired;
        let ctx = IterCtx { prop: "C05", iter_seed, family_idx: fi };
        record(rep, &ctx, &case, &rc, &plan, &out, &stats, violations, nontrivial);
    }
}
